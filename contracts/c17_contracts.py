"""CrossHair contracts for dtaidistance.alignment (Needleman-Wunsch) on symbolic strings.
Run by checks/C17.py: crosshair check --report_all --per_condition_timeout T contracts/c17_contracts.py:LINE"""
import os
import sys
sys.path.insert(0, os.path.join(os.environ.get('VERIF_REPO', '/repo'), 'src'))
from dtaidistance import alignment  # noqa
from functools import lru_cache

MAXLEN = int(os.environ.get('C17_MAXLEN', '3'))
ALPHA = os.environ.get('C17_ALPHA', 'AB')
MATRIX = {('A', 'B'): -2, ('A', 'A'): 3}


def _best(s1, s2, sub, gap):
    """brute force: maximum total score over all global alignments"""
    @lru_cache(None)
    def f(i, j):
        if i == len(s1):
            return -gap * (len(s2) - j)
        if j == len(s2):
            return -gap * (len(s1) - i)
        return max(sub(s1[i], s2[j]) + f(i + 1, j + 1), -gap + f(i + 1, j), -gap + f(i, j + 1))
    return f(0, 0)


def _sub_default(a, b):
    return 1 if a == b else -1


def _sub_matrix(a, b):
    if (a, b) in MATRIX:
        return MATRIX[(a, b)]
    if (b, a) in MATRIX:
        return MATRIX[(b, a)]
    return 1 if a == b else -1


def _consistent(value, paths, s1, s2, sub, gap, order):
    algn, s1a, s2a = alignment.best_alignment(paths, s1, s2, gap='-', order=order)
    ok = len(s1a) == len(s2a)
    ok = ok and ''.join(x for x in s1a if x != '-') == s1 and ''.join(x for x in s2a if x != '-') == s2
    ok = ok and all(not (x == '-' and y == '-') for x, y in zip(s1a, s2a))
    sc = sum((-gap if (x == '-' or y == '-') else sub(x, y)) for x, y in zip(s1a, s2a))
    return ok and sc == value


def _pre(s1, s2):
    return 1 <= len(s1) <= MAXLEN and 1 <= len(s2) <= MAXLEN and all(ch in ALPHA for ch in s1) and all(ch in ALPHA for ch in s2)


def _nw_default(s1: str, s2: str) -> bool:
    """
    pre: _pre(s1, s2)
    post: _
    """
    value, scores, paths = alignment.needleman_wunsch(s1, s2)
    return value == _best(s1, s2, _sub_default, 1) and _consistent(value, paths, s1, s2, _sub_default, 1, None)


def _nw_order_102(s1: str, s2: str) -> bool:
    """
    pre: _pre(s1, s2)
    post: _
    """
    value, scores, paths = alignment.needleman_wunsch(s1, s2)
    return _consistent(value, paths, s1, s2, _sub_default, 1, [1, 0, 2])


def _nw_order_021(s1: str, s2: str) -> bool:
    """
    pre: _pre(s1, s2)
    post: _
    """
    value, scores, paths = alignment.needleman_wunsch(s1, s2)
    return _consistent(value, paths, s1, s2, _sub_default, 1, [0, 2, 1])


def _nw_order_120(s1: str, s2: str) -> bool:
    """
    pre: _pre(s1, s2)
    post: _
    """
    value, scores, paths = alignment.needleman_wunsch(s1, s2)
    return _consistent(value, paths, s1, s2, _sub_default, 1, [1, 2, 0])


def _nw_order_201(s1: str, s2: str) -> bool:
    """
    pre: _pre(s1, s2)
    post: _
    """
    value, scores, paths = alignment.needleman_wunsch(s1, s2)
    return _consistent(value, paths, s1, s2, _sub_default, 1, [2, 0, 1])


def _nw_order_210(s1: str, s2: str) -> bool:
    """
    pre: _pre(s1, s2)
    post: _
    """
    value, scores, paths = alignment.needleman_wunsch(s1, s2)
    return _consistent(value, paths, s1, s2, _sub_default, 1, [2, 1, 0])


def _nw_matrix_max(s1: str, s2: str) -> bool:
    """
    pre: _pre(s1, s2)
    post: _
    """
    fn = alignment.make_substitution_fn(MATRIX, gap=1, opt='max')
    value, scores, paths = alignment.needleman_wunsch(s1, s2, substitution=fn)
    return value == _best(s1, s2, _sub_matrix, 1) and _consistent(value, paths, s1, s2, _sub_matrix, 1, None)


def _sub_directed(a, b):
    """direction dependent scores: (first sequence symbol, second sequence symbol)"""
    if a == 'A' and b == 'A':
        return 3
    if a == 'A' and b == 'B':
        return -2
    if a == 'B' and b == 'A':
        return 1
    return 1 if a == b else -1


def _directed_fn(a, b):
    # substitution callables return (cost, gap cost); costs are negated scores because dp minimises
    return -_sub_directed(a, b), 1


def _nw_directed(s1: str, s2: str) -> bool:
    """
    user supplied substitution callable whose score depends on the direction
    pre: _pre(s1, s2)
    post: _
    """
    value, scores, paths = alignment.needleman_wunsch(s1, s2, substitution=_directed_fn)
    return value == _best(s1, s2, _sub_directed, 1) and _consistent(value, paths, s1, s2, _sub_directed, 1, None)


def _nw_matrix_min(s1: str, s2: str) -> bool:
    """
    opt='min': the dictionary holds costs; needleman_wunsch still returns the negated minimum
    pre: _pre(s1, s2)
    post: _
    """
    fn = alignment.make_substitution_fn(MATRIX, gap=1, opt='min')
    value, scores, paths = alignment.needleman_wunsch(s1, s2, substitution=fn)

    def sub(a, b):
        if (a, b) in MATRIX:
            return -MATRIX[(a, b)]
        if (b, a) in MATRIX:
            return -MATRIX[(b, a)]
        return 1 if a == b else -1
    return value == _best(s1, s2, sub, 1) and _consistent(value, paths, s1, s2, sub, 1, None)


def _nw_gap_half(s1: str, s2: str) -> bool:
    """
    custom gap cost
    pre: _pre(s1, s2)
    post: _
    """
    fn = alignment.make_substitution_fn({}, gap=0.5)
    value, scores, paths = alignment.needleman_wunsch(s1, s2, substitution=fn)
    return value == _best(s1, s2, _sub_default, 0.5) and _consistent(value, paths, s1, s2, _sub_default, 0.5, None)


def _reach_nw_default(s1: str, s2: str) -> bool:
    """
    reachability twin: must be REFUTED
    pre: _pre(s1, s2)
    post: _
    """
    value, scores, paths = alignment.needleman_wunsch(s1, s2)
    return value < 0
