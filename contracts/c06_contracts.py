"""CrossHair contracts for the integer-only block helpers of dtaidistance.dtw (numpy hidden: pure Python lists).
Run by checks/C06.py with: crosshair check --report_all --per_condition_timeout T contracts/c06_contracts.py:LINE"""
import os
import sys
os.environ['DTAIDISTANCE_TESTWITHOUTNUMPY'] = '1'
sys.path.insert(0, os.path.join(os.environ.get('VERIF_REPO', '/repo'), 'src'))
from dtaidistance import dtw  # noqa


def _pairs(rb: int, re: int, cb: int, ce: int, triu: bool, n: int):
    return [(r, c) for r in range(n) for c in range(n) if rb <= r < re and cb <= c < ce and (c > r or not triu)]


def _len_idxs_pairs_n1(rb: int, re: int, cb: int, ce: int, triu: bool) -> bool:
    """
    pre: 0 <= rb < re <= 1
    pre: 0 <= cb < ce <= 1
    post: _
    """
    n = 1
    block = ((rb, re), (cb, ce)) if triu else ((rb, re), (cb, ce), False)
    want = _pairs(rb, re, cb, ce, triu, n)
    length = dtw._distance_matrix_length(block, n)
    idxs = dtw._distance_matrix_idxs(block, n)
    got = list(zip(list(idxs[0]), list(idxs[1])))
    return length == len(want) and got == want


def _len_idxs_pairs_n2(rb: int, re: int, cb: int, ce: int, triu: bool) -> bool:
    """
    pre: 0 <= rb < re <= 2
    pre: 0 <= cb < ce <= 2
    post: _
    """
    n = 2
    block = ((rb, re), (cb, ce)) if triu else ((rb, re), (cb, ce), False)
    want = _pairs(rb, re, cb, ce, triu, n)
    length = dtw._distance_matrix_length(block, n)
    idxs = dtw._distance_matrix_idxs(block, n)
    got = list(zip(list(idxs[0]), list(idxs[1])))
    return length == len(want) and got == want


def _len_idxs_pairs_n3(rb: int, re: int, cb: int, ce: int, triu: bool) -> bool:
    """
    pre: 0 <= rb < re <= 3
    pre: 0 <= cb < ce <= 3
    post: _
    """
    n = 3
    block = ((rb, re), (cb, ce)) if triu else ((rb, re), (cb, ce), False)
    want = _pairs(rb, re, cb, ce, triu, n)
    length = dtw._distance_matrix_length(block, n)
    idxs = dtw._distance_matrix_idxs(block, n)
    got = list(zip(list(idxs[0]), list(idxs[1])))
    return length == len(want) and got == want


def _len_idxs_pairs_n4(rb: int, re: int, cb: int, ce: int, triu: bool) -> bool:
    """
    pre: 0 <= rb < re <= 4
    pre: 0 <= cb < ce <= 4
    post: _
    """
    n = 4
    block = ((rb, re), (cb, ce)) if triu else ((rb, re), (cb, ce), False)
    want = _pairs(rb, re, cb, ce, triu, n)
    length = dtw._distance_matrix_length(block, n)
    idxs = dtw._distance_matrix_idxs(block, n)
    got = list(zip(list(idxs[0]), list(idxs[1])))
    return length == len(want) and got == want


def _len_idxs_pairs_n5(rb: int, re: int, cb: int, ce: int, triu: bool) -> bool:
    """
    pre: 0 <= rb < re <= 5
    pre: 0 <= cb < ce <= 5
    post: _
    """
    n = 5
    block = ((rb, re), (cb, ce)) if triu else ((rb, re), (cb, ce), False)
    want = _pairs(rb, re, cb, ce, triu, n)
    length = dtw._distance_matrix_length(block, n)
    idxs = dtw._distance_matrix_idxs(block, n)
    got = list(zip(list(idxs[0]), list(idxs[1])))
    return length == len(want) and got == want


def _condensed_index(a: int, b: int, n: int) -> bool:
    """
    pre: 2 <= n <= 6
    pre: 0 <= a < n and 0 <= b < n and a != b
    post: _
    """
    want = _pairs(0, n, 0, n, True, n)
    k = dtw.distance_array_index(a, b, n)
    return want[k] == (min(a, b), max(a, b))


def _reach_len_idxs_pairs(rb: int, re: int, cb: int, ce: int, triu: bool, n: int) -> bool:
    """
    reachability twin: must be REFUTED (a counterexample exists)
    pre: 1 <= n <= 5
    pre: 0 <= rb < re <= n
    pre: 0 <= cb < ce <= n
    post: _
    """
    block = ((rb, re), (cb, ce)) if triu else ((rb, re), (cb, ce), False)
    return dtw._distance_matrix_length(block, n) == 0
