"""C04 — accumulated-cost matrix is cell-wise optimal and identical across engines."""
import math
import random
from fractions import Fraction

import z3

from engine import smt, pysym, spec, dtwh
from engine.pysym import SReal, Explorer
from engine.smt import ER, INF
from engine.runner import jnum, unj, active_regions

ID = 'C04'
ENGINE = 'PYSYM + IRSYM'
TECHNIQUE = 'symbolic execution of dtw.warping_paths and of the C warping-paths / expansion kernels (LLVM IR) into exactly sized buffers; cell-wise SMT queries against the optimal-partial-path oracle (z3)'
BUDGET = {'quick': 420, 'thorough': 1800}
SOURCES = ['src/dtaidistance/dtw.py', 'src/dtaidistance/dtw_cc.pyx', 'src/DTAIDistanceC/DTAIDistanceC/dd_dtw.c',
           'src/dtaidistance/innerdistance.py']
FUNCTIONS = ['dtw.warping_paths', 'dd_dtw.c dtw_warping_paths, dtw_warping_paths_ndim, dtw_warping_paths_ndim_euclidean',
             'dtw_settings_wps_length/width, dtw_wps_parts', 'dtw_expand_wps, dtw_expand_wps_slice',
             'dtw_cc.pyx warping_paths (transcribed: direct-buffer decision)']
BOUNDS = {'quick': {'narrow band (C engine)': '5x4, 4x5, 6x5, 5x5 with windows 1..2 (unclamped compact width), penalty None|symbolic', 'r,c': '1..4 (data dependent control: 1..3)', 'window': 'all', 'psi': 'None, 1, tuples', 'penalty': 'None|symbolic',
                    'max_step / max_dist': 'symbolic, r,c <= 3', 'slices (C)': 'all prefix slices for r*c <= 2, 3 seeded ones for larger (slices with an offset: known finding F04-slice-offset)'},
          'thorough': {'r,c': '1..5 (data dependent control: r*c <= 12)', 'window': 'all', 'psi': 'None, 1, 2, tuples',
                       'penalty': 'None|symbolic', 'max_step / max_dist': 'symbolic', 'slices (C)': 'all for r,c <= 3, seeded for larger'}}
OUTSIDE = ['the affinity variant (C18)', 'printing routines', 'floating point rounding']
ASSUMPTIONS = ['oracle spec_matrix = textbook recurrence validated against path enumeration (C01)',
               'only cells (i+1, j+1) are claimed; the virtual first row/column is not part of the statement',
               'transcription of the dtw_cc.pyx decision when the caller matrix is used as the compact buffer']
RULE = ('configuration = (engine, mode, r, c, window, penalty, psi, max_step, max_dist, keep_int_repr, psi_neg, [slice]); '
        'one query per (path, cell) group: a cell differs from the oracle beyond the permitted freedom.')
EXPLANATION = 'bounded symbolic model checking of the cost-matrix routines, solver = z3'

P, S, Mx = z3.Real('P'), z3.Real('S'), z3.Real('M')


def prepare(tier):
    from engine import irsym
    irsym.prepare()


def _grid(r, c, tier, rnd, eng, kind='cost'):
    out = []
    big = 4 if tier == 'quick' else 5
    base = {'window': None, 'pen': False, 'psi': None, 'step': False, 'md': False, 'keep': True, 'neg': True}
    fork_ok = r * c <= (9 if tier == 'quick' else 12)
    wins = dtwh.windows(r, c)
    psis = dtwh.psi_options(r, c, tier, rnd, nrandom=2)
    if r > 3 or c > 3:
        psis = [p for p in psis if p is None or isinstance(p, int)]
    if eng == 'c' and tier == 'quick':
        psis = [p for p in psis if p is None or isinstance(p, int) or sum(p) == 1]
    for w in wins:
        for pen in (False, True):
            for psi in psis:
                if psi is not None and not fork_ok:
                    continue
                out.append(dict(base, window=w, pen=pen, psi=psi, keep=(w is None or w % 2 == 0), neg=True))
                if psi is not None and spec.norm_psi(psi)[1] + spec.norm_psi(psi)[3] > 0:
                    out.append(dict(base, window=w, pen=pen, psi=psi, keep=False, neg=False))
    if not fork_ok and r * c <= 12 and eng == 'c':
        # narrow band on longer series: the shifted regions (C, D) of the compact layout exist here
        out.append(dict(base, window=1, md=True, keep=True))
        out.append(dict(base, window=1, step=True))
    if fork_ok:
        for w in (None, 1, 2):
            for pen in (False, True):
                out.append(dict(base, window=w, pen=pen, step=True))
                out.append(dict(base, window=w, pen=pen, md=True, keep=pen))
            out.append(dict(base, window=w, psi=1 if not spec.psi_degenerate(r, c, 1) and min(r, c) >= 1 else None, md=True, keep=False))
    return out


def tasks(tier, seed):
    n = 4 if tier == 'quick' else 5
    ts = []
    for eng, kind in (('py', 'cost'), ('py', 'sq'), ('c', 'sq'), ('c', 'abs')):
        for r in range(1, n + 1):
            for c in range(1, n + 1):
                rnd = random.Random(seed * 31 + r * 7 + c)
                grid = _grid(r, c, tier, rnd, eng, kind)
                chunk, est = [], 0
                lim = 1500 if tier == 'quick' else 6000
                for o in grid:
                    chunk.append(o)
                    w = 1
                    if o['step']:
                        w *= 2 ** (r * c)
                    if o['md']:
                        w *= 2 ** min(r * c, 7)
                    if o['psi'] is not None:
                        w *= 3
                    est += w * r * c * (3 if eng == 'c' else 1)
                    if est >= lim:
                        ts.append({'harness': 'wps/%s/%s' % (eng, kind), 'eng': eng, 'kind': kind, 'r': r, 'c': c, 'opts': jnum(chunk),
                                   'est': est})
                        chunk, est = [], 0
                if chunk:
                    ts.append({'harness': 'wps/%s/%s' % (eng, kind), 'eng': eng, 'kind': kind, 'r': r, 'c': c, 'opts': jnum(chunk), 'est': est})
    # longer series with a narrow band (C engine): all four row regions of the compact layout exist and the width is not clamped
    base = {'window': None, 'pen': False, 'psi': None, 'step': False, 'md': False, 'keep': True, 'neg': True}
    for r, c in ((5, 4), (4, 5), (6, 5), (5, 5)) + (((6, 6), (7, 5), (5, 7)) if tier == 'thorough' else ()):
        chunk = []
        for w in (1, 2):
            if abs(r - c) + 2 * w + 1 >= c + 1:
                continue
            for pen in (False, True):
                chunk.append(dict(base, window=w, pen=pen, keep=pen))
        for kind in ('sq', 'abs'):
            if chunk:
                ts.append({'harness': 'wps/c/%s' % kind, 'eng': 'c', 'kind': kind, 'r': r, 'c': c, 'opts': jnum(chunk), 'est': 40 * r * c})
    for t in ts:
        t['tier'], t['seed'] = tier, seed
    ts.sort(key=lambda t: -t['est'])
    return ts


def _unopt(o):
    o = dict(o)
    if isinstance(o.get('psi'), list):
        o['psi'] = tuple(o['psi'])
    return o


def _cellval(v):
    """matrix cell (SReal / z3 term / float / int) -> ('inf',) | ('neg1',) | ('val', term)"""
    if isinstance(v, SReal):
        return ('val', v.t)
    if isinstance(v, z3.ExprRef):
        return ('val', v)
    if v is None:
        return ('unset',)
    if isinstance(v, float) and math.isinf(v):
        return ('inf',) if v > 0 else ('ninf',)
    if v == -1:
        return ('neg1',)
    return ('val', smt.rv(v))


def run_task(cfg):
    dtw, innerdistance, ed = dtwh.load('dtw', 'innerdistance', 'ed')
    eng, kind, r, c, tier = cfg['eng'], cfg['kind'], cfg['r'], cfg['c'], cfg['tier']
    stats = smt.Stats()
    cexs, incon, sample, trunc = [], 0, None, False
    irmod = None
    if eng == 'c':
        from engine import irsym, ckern
        irmod = irsym.module()
    innername = {'sq': 'squared euclidean', 'abs': 'euclidean'}.get(kind)
    rnd = random.Random(cfg['seed'] * 101 + r * 11 + c)
    act = active_regions(ID)
    for o in [_unopt(x) for x in cfg['opts']]:
        pp = spec.norm_psi(o['psi'])
        if eng == 'c' and 'F04-c-psi-window' in act and (o['window'] is not None or r != c or o['md']) and (pp[1] > 0 or pp[3] > 0):
            continue        # known finding: excluded region
        skip_d = eng == 'c' and 'F04-c-maxdist' in act and o['md']      # known finding: returned distance only
        if eng == 'c' and 'F04-c-clamped-width' in act and o['window'] is not None and o['window'] < max(r, c) \
                and abs(r - c) + 2 * o['window'] + 1 >= c + 1:
            continue
        mode = dtwh.CostMode(r, c) if kind == 'cost' else dtwh.SeriesMode(r, c, innername)
        assume = list(mode.assume) + [P >= 0, S > 0, Mx > 0]
        kw = {'window': o['window'], 'psi': o['psi']}
        if o['pen']:
            kw['penalty'] = SReal(P)
        if o['step']:
            kw['max_step'] = SReal(S)
        if o['md']:
            kw['max_dist'] = SReal(Mx)
        keep, neg = o['keep'], o['neg']
        syms = {'penalty': P if o['pen'] else None, 'max_step': S if o['step'] else None, 'max_dist': Mx if o['md'] else None}
        meta = {'harness': cfg['harness'], 'eng': eng, 'kind': kind, 'r': r, 'c': c, 'opts': jnum(o)}
        W = spec.spec_matrix(mode.D, r, c, o['window'], mode.tr(P) if o['pen'] else 0, o['psi'],
                             mode.tr(S) if o['step'] else None)
        final = spec.spec_final(W, r, c, o['psi'])
        thr = mode.tr(Mx) if o['md'] else None
        inb = spec.band_fn(r, c, o['window'])
        p1b, p1e, p2b, p2e = spec.norm_psi(o['psi'])
        slices = []
        if eng == 'py':
            def run():
                res = dtw.warping_paths(mode.s1, mode.s2, psi_neg=neg, keep_int_repr=keep, **dict(mode.kw(), **kw))
                if pysym.is_inf(res):
                    return None
                d, m = res
                return d, [[m[i, j] for j in range(m.shape[1])] for i in range(m.shape[0])], m.shape, []
        else:
            allsl = [(rb, re_, cb, ce) for rb in range(0, r + 1) for re_ in range(rb + 1, r + 2)
                     for cb in range(0, c + 1) for ce in range(cb + 1, c + 2)]
            if 'F04-slice-offset' in act:
                allsl = [s_ for s_ in allsl if s_[0] == 0 and s_[2] == 0]
            if r * c <= (2 if tier == 'quick' else 9):
                slices = allsl
            else:
                rnd.shuffle(allsl)
                slices = allsl[:3]

            def run():
                from engine import ckern
                ckw = dict(kw, inner_dist=innername)
                cs = dtwh.c_settings(dtw, **ckw)
                w = ckern.warping_paths(irmod, mode, cs, keep_int_repr=keep, psi_neg=neg, fill=INF)
                full = ckern.full_matrix(w)
                sl = []
                if not w.direct_full or True:
                    ex = ckern.expand(w)
                    sl.append(('expand', (0, r + 1, 0, c + 1), ex))
                    for (rb, re_, cb, ce) in ([] if (o['md'] or o['step']) else slices):
                        sl.append(('slice', (rb, re_, cb, ce), ckern.expand_slice(w, rb, re_, cb, ce)))
                return w.d, full, (r + 1, c + 1), sl
        ex = pysym.Explorer(assume, max_paths=3000, stats=stats)
        for p in ex.explore(run):
            facts = assume + p.facts()
            if p.exc is not None:
                if eng == 'c':
                    from engine import irsym
                    if isinstance(p.exc, irsym.Violation):
                        continue       # C08
                    raise p.exc
                cx = dtwh.claim(stats, facts, z3.BoolVal(True), mode, syms, dict(meta, claim='warping_paths raises %s' % type(p.exc).__name__))
                if cx not in (None, 'unknown'):
                    cexs.append(cx)
                continue
            if p.result is None:
                continue
            d, m, shape, sl = p.result
            bad = []        # disjunction of per-cell violations
            if tuple(shape) != (r + 1, c + 1):
                bad.append(z3.BoolVal(True))
            tf = (lambda t: t) if (keep or kind != 'sq') else None     # transform for non-internal representation

            def cell_bad(cv, i, j):
                """violation formula for matrix cell (i+1, j+1) holding cv"""
                kindv = _cellval(cv)
                want = W[i + 1][j + 1]
                on_relax = (i == r - 1 and c - 1 - j < p2e and j < c) or (j == c - 1 and r - 1 - i < p1e)
                if kindv[0] == 'neg1':
                    # only on end-relaxation cells beyond the chosen minimum, and only when requested
                    if not (neg and on_relax):
                        return z3.BoolVal(True)
                    return None
                if not inb(i, j):
                    return None if kindv[0] == 'inf' else z3.BoolVal(True)
                if kindv[0] in ('unset', 'ninf'):
                    return z3.BoolVal(True)
                if kindv[0] == 'inf':
                    got = ER.infinity()
                else:
                    t = kindv[1]
                    if not keep and kind == 'sq':
                        t = mode.unresult(SReal(t))
                    got = ER(t)
                f = smt.er_neq(got, want)
                if thr is not None:
                    # freedom: optimum > M and (cell = inf or cell > M)
                    over = z3.And(z3.Or(smt._b(want.inf), want.val > thr), z3.Or(smt._b(got.inf), got.val > thr))
                    f = z3.And(f, z3.Not(over))
                return f
            for i in range(r):
                for j in range(c):
                    f = cell_bad(m[i + 1][j + 1], i, j)
                    if f is not None:
                        bad.append(f)
            cl = 'every cell (i+1,j+1) of the matrix is the optimal partial-path cost (out-of-band cells infinite)'
            lem = 'pairwise' if (kind == 'sq' and not keep) else 'unary'
            cx = dtwh.claim(stats, facts, z3.Or(*bad) if bad else z3.BoolVal(False), mode, syms, dict(meta, claim=cl), lemmas=lem)
            if cx == 'unknown':
                incon += 1
            elif cx is not None:
                cexs.append(cx)
            # returned distance = distance-only routine (oracle) [with threshold semantics]
            dv = _cellval(d)
            if dv[0] == 'inf':
                got = ER.infinity()
            else:
                t = dv[1]
                if not keep and kind == 'sq':
                    t = mode.unresult(SReal(t))
                got = ER(t)
            if thr is None:
                negd = smt.er_neq(got, final)
            elif got.inf is True:
                negd = z3.And(z3.Not(smt._b(final.inf)), final.val < thr)
            else:
                negd = z3.Or(smt.er_neq(got, final), final.val > thr)
            cx = None if skip_d else dtwh.claim(stats, facts, negd, mode, syms, dict(meta, claim='returned distance equals the distance-only result'), lemmas=lem)
            if cx == 'unknown':
                incon += 1
            elif cx is not None:
                cexs.append(cx)
            # C: expansion / slices agree with the full matrix cell by cell
            for nm, (rb, re_, cb, ce), sm in sl:
                bad2 = []
                for ii in range(rb, re_):
                    for jj in range(cb, ce):
                        a, b = _cellval(sm[ii - rb][jj - cb]), _cellval(m[ii][jj])
                        if ii == 0 or jj == 0:
                            continue
                        if a[0] != b[0]:
                            # allowed difference: out-of-band cells (both represent "no value")
                            bad2.append(z3.BoolVal(True))
                        elif a[0] == 'val':
                            bad2.append(a[1] != b[1])
                cx = dtwh.claim(stats, facts, z3.Or(*bad2) if bad2 else z3.BoolVal(False), mode, syms,
                                dict(meta, claim='C %s of the compact matrix equals the full matrix' % nm, slice=[rb, re_, cb, ce]))
                if cx == 'unknown':
                    incon += 1
                elif cx is not None:
                    cexs.append(cx)
            if sample is None:
                sample = {'harness': cfg['harness'], 'r': r, 'c': c, 'options': jnum(o), 'cells_checked': r * c,
                          'slices_checked': len(sl), 'query': cl + ' -- negated, unsat expected'}
        trunc = trunc or ex.truncated
        incon += ex.inconclusive_paths
    return {'stats': stats.as_dict(), 'cex': cexs, 'inconclusive': incon, 'sample': sample, 'truncated': trunc}


# --------------------------------------------------------------------------------------------------
def concrete_matrix(cex):
    """run the real routine; returns (d, matrix as nested list, slices)"""
    from dtaidistance import dtw
    import numpy as np
    inp = unj(cex['inputs'])
    o = _unopt(unj(cex['opts']))
    r, c, kind, eng = cex['r'], cex['c'], cex['kind'], cex['eng']
    psi = o.get('psi')
    psi = tuple(int(x) for x in psi) if isinstance(psi, (list, tuple)) else (None if psi is None else int(psi))
    w = None if o.get('window') is None else int(o['window'])
    kw = {'window': w, 'psi': psi}
    if o['pen']:
        kw['penalty'] = float(inp['penalty'])
    if o['step']:
        kw['max_step'] = float(inp['max_step'])
    if o['md']:
        kw['max_dist'] = float(inp['max_dist'])
    keep, neg = bool(o['keep']), bool(o['neg'])
    innername = {'sq': 'squared euclidean', 'abs': 'euclidean'}.get(kind)
    if kind == 'cost':
        dm = dtwh.fl(inp['dm'])
        s1, s2 = list(range(r)), list(range(c))
        kwp = dict(kw, inner_dist=dtwh.conc_inner(dm))
        D = dtwh.conc_D('cost', None, {'dm': dm})
    else:
        s1, s2 = dtwh.fl(inp['s1']), dtwh.fl(inp['s2'])
        kwp = dict(kw, inner_dist=innername)
        D = dtwh.conc_D('series', innername, {'s1': s1, 's2': s2})
    if eng == 'py':
        res = dtw.warping_paths(s1, s2, psi_neg=neg, keep_int_repr=keep, **kwp)
        d, m = res
        return d, m.tolist(), D, kw, []
    from engine import native
    import ctypes
    L = native.lib()
    cs = dtwh.c_settings(dtw, **kwp)
    st = native.settings(cs)
    length = L.dtw_settings_wps_length(r, c, ctypes.byref(st))
    width = L.dtw_settings_wps_width(r, c, ctypes.byref(st))
    buf = native.Fenced(n=length, fill=float('inf'))
    a, b = native.Fenced(s1), native.Fenced(s2)
    d = L.dtw_warping_paths(buf.ptr, a.ptr, r, b.ptr, c, True, keep, neg, ctypes.byref(st))
    if length == (r + 1) * (c + 1) and width == c + 1:
        v = buf.values()
        m = [v[i * (c + 1):(i + 1) * (c + 1)] for i in range(r + 1)]
    else:
        full = native.Fenced(n=(r + 1) * (c + 1), fill=-7.0)
        L.dtw_expand_wps(buf.ptr, full.ptr, r, c, ctypes.byref(st))
        v = full.values()
        m = [v[i * (c + 1):(i + 1) * (c + 1)] for i in range(r + 1)]
    sl = []
    if cex.get('slice'):
        rb, re_, cb, ce = [int(x) for x in cex['slice']]
        out = native.Fenced(n=(re_ - rb) * (ce - cb), fill=-7.0)
        L.dtw_expand_wps_slice(buf.ptr, out.ptr, r, c, rb, re_, cb, ce, ctypes.byref(st))
        v = out.values()
        sl = [v[i * (ce - cb):(i + 1) * (ce - cb)] for i in range(re_ - rb)]
    return d, m, D, kw, sl


def replay(cex):
    o = _unopt(unj(cex['opts']))
    inp = unj(cex['inputs'])
    r, c, kind = cex['r'], cex['c'], cex['kind']
    try:
        d, m, D, kw, sl = concrete_matrix(cex)
    except Exception as e:
        return {'reproduced': 'raises' in cex['claim'], 'observed': 'raised %r' % (e,)}
    innername = {'sq': 'squared euclidean', 'abs': 'euclidean'}.get(kind)
    pen = dtwh.conc_tr(kind, innername, kw.get('penalty')) or 0
    step = dtwh.conc_tr(kind, innername, kw.get('max_step'))
    W = spec.conc_matrix(D, r, c, kw['window'], pen, kw['psi'], step)
    keep, neg = bool(o['keep']), bool(o['neg'])
    md = kw.get('max_dist')

    def tr(v):
        if isinstance(v, float) and math.isinf(v):
            return v
        return float(v) if (keep or kind != 'sq') else math.sqrt(v)
    thr = None if md is None else (dtwh.conc_tr(kind, innername, md) if keep else md)
    inb = spec.band_fn(r, c, kw['window'])
    p1b, p1e, p2b, p2e = spec.norm_psi(kw['psi'])
    if 'slice' in cex['claim'] or 'expand' in cex['claim']:
        rb, re_, cb, ce = [int(x) for x in cex.get('slice', [0, r + 1, 0, c + 1])]
        if not sl:
            return {'reproduced': False, 'observed': 'no slice'}
        for ii in range(rb, re_):
            for jj in range(cb, ce):
                if ii == 0 or jj == 0:
                    continue
                a, b = sl[ii - rb][jj - cb], m[ii][jj]
                if not (spec.close(a, b) or (a != a and b != b)):
                    return {'reproduced': True, 'observed': {'cell': [ii, jj], 'slice': a, 'full': b}, 'expected': 'equal'}
        return {'reproduced': False, 'observed': 'slice equals full matrix'}
    if 'returned distance' in cex['claim']:
        want = tr(spec.conc_final(W, r, c, kw['psi']))
        if thr is not None:
            if abs(want - thr) <= 1e-9 * max(1.0, abs(thr)):
                return {'reproduced': False, 'observed': d, 'expected': 'threshold within rounding width'}
            ok = (math.isinf(d) and want >= thr) or (not math.isinf(d) and spec.close(d, want) and want <= thr)
        else:
            ok = spec.close(d, want)
        return {'reproduced': not ok, 'observed': d, 'expected': want}
    for i in range(r):
        for j in range(c):
            v = m[i + 1][j + 1]
            want = tr(W[i + 1][j + 1])
            on_relax = (i == r - 1 and c - 1 - j < p2e) or (j == c - 1 and r - 1 - i < p1e)
            if v == -1:
                if not (neg and on_relax):
                    return {'reproduced': True, 'observed': {'cell': [i + 1, j + 1], 'value': v}, 'expected': want}
                continue
            if not inb(i, j):
                if not math.isinf(v):
                    return {'reproduced': True, 'observed': {'cell': [i + 1, j + 1], 'value': v}, 'expected': 'inf (outside band)'}
                continue
            if spec.close(v, want):
                continue
            if thr is not None and want > thr * (1 + 1e-9) and (math.isinf(v) or v > thr * (1 - 1e-9)):
                continue
            return {'reproduced': True, 'observed': {'cell': [i + 1, j + 1], 'value': v}, 'expected': want}
    return {'reproduced': False, 'observed': 'matrix matches the oracle'}
