"""C01 — pure-Python dtw.distance equals the optimum over all admissible warping paths."""
import itertools
import math
import random
import time
from fractions import Fraction

import z3

from engine import smt, pysym, spec, dtwh
from engine.pysym import SReal, Explorer
from engine.smt import INF, ER
from engine.runner import jnum, unj, active_regions

ID = 'C01'
BUDGET = {'quick': 420, 'thorough': 1800}
SOURCES = ['src/dtaidistance/dtw.py', 'src/dtaidistance/innerdistance.py', 'src/dtaidistance/ed.py']
FUNCTIONS = ['dtw.distance', 'dtw.DTWSettings.__init__/for_dtw/set_max_dist/split_psi', 'innerdistance.inner_dist_fns',
             'innerdistance.SquaredEuclidean/Euclidean (inner_dist, result, inner_val)', 'custom inner-distance object']
BOUNDS = {
    'quick': {'r,c': '1..4', 'window': 'None, 1..max(r,c)+1', 'penalty': 'None | symbolic >= 0',
              'psi': 'None, 1, 2, core 4-tuples, 4 seeded 4-tuples with entries <= 2, full-length entries',
              'max_step': 'None | symbolic > 0 (r,c <= 3)', 'max_length_diff': 'None, 0, 1',
              'inner_dist': 'custom object (cost-matrix mode), squared euclidean, euclidean',
              'numpy': 'present and hidden (DTAIDISTANCE_TESTWITHOUTNUMPY=1)'},
    'thorough': {'r,c': '1..6 (max_step: r*c <= 12)', 'window': 'None, 1..max(r,c)+1',
                 'penalty': 'None | symbolic >= 0', 'psi': 'None, 1, 2, all 4-tuples with entries <= 2, full-length',
                 'max_step': 'None | symbolic > 0', 'max_length_diff': 'None, 0, 1',
                 'inner_dist': 'custom object, squared euclidean, euclidean', 'numpy': 'present and hidden'},
}
OUTSIDE = ['series longer than the bound', 'floating point rounding (values are mathematical reals)',
           'use_c=True dispatch (C02)', 'max_dist / use_pruning (C03)']
ASSUMPTIONS = ['array.array replaced by a list subclass', 'min/max as if-then-else terms (state merging)',
               'math.sqrt as uninterpreted SQRT with sqrt(x)^2 = x', '(x-y)**2 as uninterpreted SQ with SQ>=0, SQ(t)=0<=>t=0',
               'oracle = textbook recurrence, itself validated by the solver against explicit path enumeration']
RULE = ('one configuration = (inner distance mode, r, c, window, penalty on/off, psi, max_step on/off, max_length_diff, '
        'numpy present/hidden); all series values / cost entries, the penalty and max_step are symbolic reals. '
        'One query per (configuration, execution path): result != oracle. Non-trivial = query not closed by '
        'syntactic simplification.')
EXPLANATION = 'bounded symbolic model checking of the real Python code (PYSYM), solver = z3'


def _opt_grid(r, c, tier, rnd, with_step, reduced=False):
    wins = dtwh.windows(r, c)
    psis = dtwh.psi_options(r, c, tier, rnd)
    if reduced:
        wins = [None, 1, 2]
        psis = [p for p in psis if p is None or isinstance(p, int) or p in ((1, 0, 0, 1), (0, 1, 1, 0))]
    out = []
    for w in wins:
        for pen in (False, True):
            for psi in psis:
                out.append({'window': w, 'pen': pen, 'psi': psi, 'step': False, 'mld': None})
    okpsi = 1 if not spec.psi_degenerate(r, c, 1) else None
    for mld in (0, 1):
        for w in (None, 1):
            out.append({'window': w, 'pen': False, 'psi': None, 'step': False, 'mld': mld})
            out.append({'window': w, 'pen': True, 'psi': okpsi, 'step': False, 'mld': mld})
    if with_step and not reduced:
        sp = [None, 1, (1, 0, 0, 1), (0, 1, 1, 0)]
        sp = [p for p in sp if p is None or (isinstance(p, int) and p <= min(r, c) and not spec.psi_degenerate(r, c, p))
              or (isinstance(p, tuple) and not spec.psi_degenerate(r, c, p))]
        big = r * c >= 9
        for w in ([None, 2] if big else [None, 1, 2]):
            for pen in ((True,) if big else (False, True)):
                for psi in (sp[:2] if big else sp):
                    out.append({'window': w, 'pen': pen, 'psi': psi, 'step': True, 'mld': None})
    return out


def tasks(tier, seed):
    n = 4 if tier == 'quick' else 6
    ts = []
    for kind in ('cost', 'sq', 'abs'):
        for nonp in (False, True):
            if kind == 'abs' and nonp:
                continue
            for r in range(1, n + 1):
                for c in range(1, n + 1):
                    rnd = random.Random(seed * 1000 + r * 10 + c)
                    with_step = (r * c <= 9) if tier == 'quick' else (r * c <= 12)
                    grid = _opt_grid(r, c, tier, rnd, with_step, reduced=nonp)
                    chunk, est = [], 0
                    limit = 1500 if tier == 'quick' else 6000
                    for o in grid:
                        chunk.append(o)
                        est += (2 ** (r * c) if o['step'] else 1) * (r * c)
                        if est >= limit:
                            ts.append(_mk(kind, nonp, r, c, tier, seed, chunk, est))
                            chunk, est = [], 0
                    if chunk:
                        ts.append(_mk(kind, nonp, r, c, tier, seed, chunk, est))
    for r in range(1, (3 if tier == 'quick' else 4) + 1):
        for c in range(1, (3 if tier == 'quick' else 4) + 1):
            ts.append({'harness': 'oracle-validation', 'r': r, 'c': c, 'tier': tier, 'seed': seed, 'est': 2000 * r * c})
    ts.append({'harness': 'innerdistance-units', 'tier': tier, 'seed': seed, 'est': 1})
    for k in range(4 if tier == 'quick' else 16):
        ts.append({'harness': 'translator-validation', 'part': k, 'tier': tier, 'seed': seed, 'est': 500})
    ts.sort(key=lambda t: -t.get('est', 0))
    return ts


def _translator_validation(cfg):
    """concrete traces: dtw.distance / warping_paths on pinned proxies vs. the same routines on floats in a clean interpreter"""
    from engine import validate
    from engine.runner import REPO
    import os
    dtw, innerdistance, ed = dtwh.load('dtw', 'innerdistance', 'ed')
    rnd = random.Random(cfg['seed'] * 7919 + cfg['part'])
    stats = smt.Stats()
    trials, calls = [], []
    for _ in range(25):
        r, c = rnd.randint(1, 5), rnd.randint(1, 5)
        v1, v2 = validate.grid_values(rnd, r), validate.grid_values(rnd, c)
        kw = {}
        if rnd.random() < .5:
            kw['window'] = rnd.randint(1, 4)
        if rnd.random() < .4:
            kw['penalty'] = rnd.choice([0.25, 0.5, 1.0])
        if rnd.random() < .4:
            psi = tuple(rnd.randint(0, min(2, n_)) for n_ in (r, r, c, c))
            if not spec.psi_degenerate(r, c, psi):
                kw['psi'] = psi
        if rnd.random() < .3:
            kw['max_step'] = rnd.choice([0.75, 1.5, 3.0])
        if rnd.random() < .3:
            kw['max_dist'] = rnd.choice([1.0, 2.5, 6.0])
        if rnd.random() < .2:
            kw['use_pruning'] = True
        if rnd.random() < .3:
            kw['inner_dist'] = 'euclidean'
        fn = rnd.choice(['distance', 'distance', 'warping_paths'])
        if fn == 'warping_paths':
            kw.pop('use_pruning', None)
        trials.append((fn, v1, v2, kw))
        calls.append(['dtaidistance.dtw', fn, [v1, v2], kw])
    real = validate.run_real(calls, os.path.join(REPO, 'src'))
    bad = []
    for (fn, v1, v2, kw), want in zip(trials, real):
        names = ['a%d' % i for i in range(len(v1))] + ['b%d' % j for j in range(len(v2))]
        s1 = [SReal(z3.Real('a%d' % i)) for i in range(len(v1))]
        s2 = [SReal(z3.Real('b%d' % j)) for j in range(len(v2))]
        if fn == 'distance':
            got = validate.pysym_trace(lambda: dtw.distance(s1, s2, **kw), names, v1 + v2, stats)
        else:
            def go():
                d, m = dtw.warping_paths(pysym.objarray(s1), pysym.objarray(s2), **kw)
                return [d, m]
            got = validate.pysym_trace(go, names, v1 + v2, stats)
        if isinstance(want, dict) or isinstance(got, dict):
            ok = isinstance(want, dict) and isinstance(got, dict)
        else:
            ok = validate.close(got, want, 1e-9)
        if not ok:
            bad.append({'fn': fn, 's1': v1, 's2': v2, 'kw': kw, 'encoding': str(got)[:200], 'real': str(want)[:200]})
    if bad:
        raise RuntimeError('translator validation: the symbolic run and the real run disagree on %d of %d concrete traces, e.g. %r' % (len(bad), len(trials), bad[0]))
    stats.queries += len(trials)
    stats.unsat += len(trials)
    return {'stats': stats.as_dict(), 'cex': [], 'inconclusive': 0, 'validated': len(trials),
            'sample': {'harness': cfg['harness'], 'traces': len(trials), 'routines': ['dtw.distance', 'dtw.warping_paths'], 'last': {'fn': fn, 's1': v1, 's2': v2, 'kw': jnum(kw)}}}


def _mk(kind, nonp, r, c, tier, seed, chunk, est):
    return {'harness': 'distance/' + kind + ('/nonumpy' if nonp else ''), 'kind': kind, 'r': r, 'c': c,
            'tier': tier, 'seed': seed, 'opts': jnum(chunk), 'est': est,
            'env': {'DTAIDISTANCE_TESTWITHOUTNUMPY': '1' if nonp else None}}


def _unopt(o):
    o = dict(o)
    if isinstance(o.get('psi'), list):
        o['psi'] = tuple(o['psi'])
    return o


def _mode(kind, r, c):
    if kind == 'cost':
        return dtwh.CostMode(r, c)
    return dtwh.SeriesMode(r, c, 'squared euclidean' if kind == 'sq' else 'euclidean')


def run_task(cfg):
    if cfg['harness'] == 'oracle-validation':
        return _oracle_validation(cfg)
    if cfg['harness'] == 'innerdistance-units':
        return _inner_units(cfg)
    if cfg['harness'] == 'translator-validation':
        return _translator_validation(cfg)
    dtw, innerdistance, ed = dtwh.load('dtw', 'innerdistance', 'ed')
    kind, r, c, tier = cfg['kind'], cfg['r'], cfg['c'], cfg['tier']
    stats = smt.Stats()
    grid = [_unopt(o) for o in cfg['opts']]
    cexs, incon, sample, truncated = [], 0, None, False
    P, S = z3.Real('P'), z3.Real('S')
    witness = []
    for o in grid:
        mode = _mode(kind, r, c)
        assume = list(mode.assume) + [P >= 0, S > 0]
        kw = dict(mode.kw())
        kw['window'] = o['window']
        kw['psi'] = o['psi']
        if o['pen']:
            kw['penalty'] = SReal(P)
        if o['step']:
            kw['max_step'] = SReal(S)
        if o['mld'] is not None:
            kw['max_length_diff'] = o['mld']
        ex = Explorer(assume, max_paths=6000, stats=stats)

        def run():
            return dtw.distance(mode.s1, mode.s2, **kw)
        meta = {'harness': cfg['harness'], 'kind': kind, 'r': r, 'c': c, 'opts': jnum(o), 'env': cfg.get('env')}
        syms = {'penalty': P if o['pen'] else None, 'max_step': S if o['step'] else None}
        if o['mld'] is not None and abs(r - c) > o['mld']:
            expect = ER.infinity()
        else:
            expect = spec.spec_dtw(mode.D, r, c, o['window'], mode.tr(P) if o['pen'] else 0, o['psi'],
                                   mode.tr(S) if o['step'] else None)
        for path in ex.explore(run):
            facts = assume + path.facts()
            if path.exc is not None:
                neg = z3.BoolVal(True)
                cl = 'distance() raises %s on a valid input' % type(path.exc).__name__
                got = None
            else:
                res = path.result
                if pysym.is_inf(res):
                    got = ER.infinity()
                else:
                    got = ER(mode.unresult(res))
                neg = smt.er_neq(got, expect)
                cl = 'distance() = transformed minimum over admissible warping paths'
            m = dict(meta)
            m['claim'] = cl
            cx = dtwh.claim(stats, facts, neg, mode, syms, m)
            if cx == 'unknown':
                incon += 1
            elif cx is not None:
                cexs.append(cx)
            if sample is None and path.exc is None and not pysym.is_inf(path.result):
                sample = {'harness': cfg['harness'], 'r': r, 'c': c, 'options': jnum(o),
                          'path_condition_size': len(path.pc),
                          'query': 'path_condition /\\ result != spec_dtw  (unsat expected)',
                          'result_term': str(got.val)[:300]}
        truncated = truncated or ex.truncated
        incon += ex.inconclusive_paths
    return {'stats': stats.as_dict(), 'cex': cexs, 'inconclusive': incon, 'sample': sample, 'truncated': truncated}


def _oracle_validation(cfg):
    """spec_dtw (recurrence) == min over explicitly enumerated warping paths, decided by the solver"""
    r, c, tier = cfg['r'], cfg['c'], cfg['tier']
    stats = smt.Stats()
    rnd = random.Random(cfg['seed'])
    P, S = z3.Real('P'), z3.Real('S')
    cexs, incon = [], 0
    mode = dtwh.CostMode(r, c)
    npaths = 0
    for w in dtwh.windows(r, c):
        for psi in dtwh.psi_options(r, c, 'thorough' if r * c <= 9 else tier, rnd):
            for pen in (0, P):
                for ms in (None, S):
                    if ms is not None and (isinstance(psi, tuple) and psi not in ((1, 0, 0, 1), (0, 1, 1, 0))):
                        continue
                    a = spec.spec_dtw(mode.D, r, c, w, pen, psi, ms)
                    b = spec.enum_dtw(mode.D, r, c, w, pen, psi, ms)
                    res, m = smt.decide(stats, mode.assume + [P >= 0, S > 0], smt.er_neq(a, b), lemmas=False)
                    stats.paths += 1
                    if res == 'sat':
                        cexs.append({'harness': 'oracle-validation', 'claim': 'recurrence oracle = path enumeration',
                                     'r': r, 'c': c, 'opts': jnum({'window': w, 'psi': psi}),
                                     'inputs': mode.inputs_from_model(m), 'oracle_bug': True})
                    elif res == 'unknown':
                        incon += 1
    return {'stats': stats.as_dict(), 'cex': cexs, 'inconclusive': incon,
            'sample': {'harness': 'oracle-validation', 'r': r, 'c': c,
                       'query': 'spec_dtw(D) != min_{enumerated paths} cost(D)   (unsat expected)'}}


def _inner_units(cfg):
    """the three inner-distance classes against their formulas, on symbolic scalars (exact squares)"""
    innerdistance = dtwh.load('innerdistance')
    stats = smt.Stats()
    pysym.Mode.square = 'exact'
    cexs, incon = [], 0
    x, y = z3.Real('x'), z3.Real('y')
    try:
        for name in ('squared euclidean', 'euclidean'):
            idf, resf, ivf = innerdistance.inner_dist_fns(name)
            ex = Explorer([], stats=stats)
            for path in ex.explore(lambda: (idf(SReal(x), SReal(y)), idf(SReal(y), SReal(x)), ivf(SReal(x)),
                                            resf(ivf(SReal(x))))):
                facts = path.facts()
                d1, d2, iv, rt = path.result
                want = (x - y) * (x - y) if name == 'squared euclidean' else smt.zabs(x - y)
                claims = [('inner_dist formula', d1.t != want), ('inner_dist symmetric', d1.t != d2.t),
                          ('inner_dist >= 0', d1.t < 0)]
                if name == 'squared euclidean':
                    claims.append(('inner_val(x) = x^2', iv.t != x * x))
                    # result(inner_val(x)) = sqrt(x*x) = |x|: SQRT(x*x) with exact definition
                    claims.append(('result(inner_val(x)) = |x|', z3.And(rt.t != smt.zabs(x))))
                else:
                    claims.append(('inner_val(x) = x', iv.t != x))
                    claims.append(('result(inner_val(x)) = x', rt.t != x))
                for cl, neg in claims:
                    f2 = facts + smt.exact_defs(facts + [neg])
                    res, m = smt.decide(stats, f2, neg, lemmas=False, timeout_ms=20000)
                    if res == 'sat':
                        cexs.append({'harness': 'innerdistance-units', 'claim': name + ': ' + cl,
                                     'inputs': {'x': smt.model_val(m, x), 'y': smt.model_val(m, y)}, 'name': name})
                    elif res == 'unknown':
                        incon += 1
    finally:
        pysym.Mode.square = 'abstract'
    return {'stats': stats.as_dict(), 'cex': cexs, 'inconclusive': incon,
            'sample': {'harness': 'innerdistance-units', 'query': 'inner_dist(x,y) != (x-y)^2 (unsat expected)'}}


# --------------------------------------------------------------------------------------------------
def concrete_call(cex):
    """run the real dtw.distance on the concrete inputs of a counterexample; returns (observed, expected)"""
    from dtaidistance import dtw
    inp = unj(cex['inputs'])
    o = unj(cex['opts'])
    kind = cex['kind']
    r, c = cex['r'], cex['c']
    psi = o.get('psi')
    if isinstance(psi, list):
        psi = tuple(int(p) for p in psi)
    elif psi is not None:
        psi = int(psi)
    window = None if o.get('window') is None else int(o['window'])
    mld = None if o.get('mld') is None else int(o['mld'])
    kw = {'window': window, 'psi': psi}
    pen = dtwh.fl(inp.get('penalty')) if o.get('pen') else None
    step = dtwh.fl(inp.get('max_step')) if o.get('step') else None
    if pen is not None:
        kw['penalty'] = pen
    if step is not None:
        kw['max_step'] = step
    if mld is not None:
        kw['max_length_diff'] = mld
    inner = 'squared euclidean' if kind == 'sq' else 'euclidean'
    if kind == 'cost':
        dm = dtwh.fl(inp['dm'])
        kw['inner_dist'] = dtwh.conc_inner(dm)
        s1, s2 = list(range(r)), list(range(c))
        finputs = {'dm': dm}
    else:
        s1, s2 = dtwh.fl(inp['s1']), dtwh.fl(inp['s2'])
        kw['inner_dist'] = inner
        finputs = {'s1': s1, 's2': s2}
    D = dtwh.conc_D(kind, inner, finputs)
    if mld is not None and abs(r - c) > mld:
        expected = INF
    else:
        e = spec.conc_dtw(D, r, c, window, dtwh.conc_tr(kind, inner, pen) or 0, psi, dtwh.conc_tr(kind, inner, step))
        expected = dtwh.conc_result(kind, inner, e)
    try:
        observed = dtw.distance(s1, s2, **kw)
    except Exception as e:
        observed = 'raised %s: %s' % (type(e).__name__, e)
    return observed, expected


def replay(cex):
    if cex.get('harness') == 'oracle-validation':
        return {'reproduced': False, 'error': 'oracle self-validation failed (harness defect)'}
    if cex.get('harness') == 'innerdistance-units':
        from dtaidistance import innerdistance
        inp = unj(cex['inputs'])
        x, y = float(inp['x']), float(inp['y'])
        idf, resf, ivf = innerdistance.inner_dist_fns(cex['name'])
        want = (x - y) ** 2 if cex['name'] == 'squared euclidean' else abs(x - y)
        ok = spec.close(idf(x, y), want) and spec.close(idf(y, x), want) and \
            spec.close(resf(ivf(abs(x))), abs(x))
        return {'reproduced': not ok, 'observed': [idf(x, y), resf(ivf(abs(x)))], 'expected': [want, abs(x)]}
    observed, expected = concrete_call(cex)
    if isinstance(observed, str):
        return {'reproduced': True, 'observed': observed, 'expected': expected}
    return {'reproduced': not spec.close(observed, expected), 'observed': observed, 'expected': expected}
