"""C08 — the C engine stays within its buffers and executes no undefined behaviour."""
import itertools
import json
import os
import random

import z3

from engine import smt, pysym, spec, dtwh
from engine.pysym import Explorer
from engine.runner import jnum, unj, active_regions

ID = 'C08'
ENGINE = 'IRSYM'
TECHNIQUE = 'symbolic execution of the clang LLVM-IR of every exported C routine on exactly sized buffers with memory-safety / UB monitors; every data dependent path is decided by z3; a firing monitor is replayed natively under ASan/UBSan'
BUDGET = {'quick': 480, 'thorough': 1800}
SOURCES = ['src/DTAIDistanceC/DTAIDistanceC/dd_dtw.c', 'src/DTAIDistanceC/DTAIDistanceC/dd_ed.c',
           'src/DTAIDistanceC/DTAIDistanceC/dd_dtw_openmp.c', 'src/DTAIDistanceC/DTAIDistanceC/dd_globals.h',
           'src/DTAIDistanceC/DTAIDistanceC/dd_dtw.h']
FUNCTIONS = ['dtw_distance, dtw_distance_euclidean, dtw_distance_ndim, dtw_distance_ndim_euclidean', 'dtw_warping_paths(_ndim)(_euclidean)',
             'dtw_settings_wps_length/width, dtw_wps_parts', 'dtw_expand_wps, dtw_expand_wps_slice', 'dtw_best_path, dtw_best_path_customstart, '
             'dtw_best_path_isclose', 'dtw_warping_path(_ndim)', 'lb_keogh(_euclidean), ub_euclidean*, euclidean_distance*',
             'dtw_distances_length, dtw_distances_ptrs/_matrix/_ndim_ptrs/_ndim_matrix/_matrices/_ndim_matrices', 'dtw_dba_ptrs, dtw_dba_matrix',
             'dtw_warping_paths_affinity(_ndim), dtw_expand_wps_affinity, dtw_expand_wps_slice_affinity, dtw_wps_max, dtw_best_path_affinity, '
             'dtw_wps_negativize/positivize(_value), dtw_wps_loc(_columns), dtw_wps_parts']
BOUNDS = {'quick': {'l1,l2': '1..4 (max_dist: l1*l2 <= 9; max_step, use_pruning: l1*l2 <= 6)', 'window': '0..max+1', 'psi': 'core 4-tuples + seeded slice, entries <= length',
                    'ndim': '1..2', 'inner_dist': '0,1', 'blocks': 'all, n <= 4', 'dba': '2 series, t and lengths 1..3, windows 0..2, psi 0/1, ndim 1..2, plus (t=5, lengths 5,3) and (t=4, lengths 2,5) with windows 1..2',
                    'affinity': 'l1,l2 1..3 all windows, only_triu both, plus 5x5, 5x6, 6x4 with windows 2..3', 'wps helpers': 'l1,l2 1..3 all windows; 5x5, 4x6, 6x3 (concrete data) windows 1..3; row/column ranges incl. row 0'},
          'thorough': {'l1,l2': '1..5 (max_dist: l1*l2 <= 9; max_step, use_pruning: l1*l2 <= 8; all three together: <= 6)', 'window': '0..max+1', 'psi': 'all 4-tuples <= min(length,3)',
                       'ndim': '1..3', 'inner_dist': '0,1', 'blocks': 'all, n <= 5', 'dba': 'as quick with t and lengths 1..4, plus (t=6, lengths 6,4), (t=3, lengths 6,2)', 'affinity': 'l1,l2 1..4', 'wps helpers': 'l1,l2 1..4'}}
OUTSIDE = ['allocation failure (malloc never returns NULL in the model)', 'idx_t overflow for huge sizes', '*_prob and printing routines',
           'reads of uninitialised caller output buffers (they are modelled as zero filled)', 'the Cython layer']
ASSUMPTIONS = ['caller buffers have exactly the documented size', 'clang -O0+mem2reg IR = source semantics', 'doubles as reals: NaN/overflow not modelled']
RULE = ('configuration = (routine family, sizes, window, psi, options, inner distance, ndim, block / mask); series, penalty and thresholds '
        'symbolic. Every feasible execution path is run with monitors; one "query" = one explored path (path feasibility is decided by the solver).')
EXPLANATION = 'bounded symbolic execution with memory-safety monitors (IRSYM), solver = z3'

NAMES = ['P', 'S', 'M']


def prepare(tier):
    from engine import irsym
    irsym.prepare()


def _series(prefix, n, ndim):
    return [{'sym': '%s%d' % (prefix, i)} for i in range(n * ndim)]


def _settings(o, inner):
    st = {'window': o['window'], 'inner_dist': inner}
    p = spec.norm_psi(o.get('psi'))
    st.update({'psi_1b': p[0], 'psi_1e': p[1], 'psi_2b': p[2], 'psi_2e': p[3]})
    if o.get('pen'):
        st['penalty'] = {'sym': 'P'}
    if o.get('step'):
        st['max_step'] = {'sym': 'S'}
    if o.get('md'):
        st['max_dist'] = {'sym': 'M'}
    if o.get('prune'):
        st['use_pruning'] = True
    return st


def _psi_set(l1, l2, tier, rnd):
    cap = 2 if tier == 'quick' else 3
    allt = [t for t in itertools.product(range(0, cap + 1), repeat=4) if t[0] <= l1 and t[1] <= l1 and t[2] <= l2 and t[3] <= l2]
    core = [(0, 0, 0, 0), (1, 1, 1, 1), (0, l1, 0, 0), (0, 0, 0, l2), (l1, 0, 0, 0), (0, 0, l2, 0), (0, min(2, l1), 0, min(2, l2)), (l1, l1, l2, l2)]
    core = [t for t in core if t[0] <= l1 and t[1] <= l1 and t[2] <= l2 and t[3] <= l2]
    if tier == 'thorough':
        return sorted(set(allt + core))
    rest = [t for t in allt if t not in core]
    rnd.shuffle(rest)
    return sorted(set(core + rest[:3]))


def tasks(tier, seed):
    n = 4 if tier == 'quick' else 5
    ts = []
    rnd = random.Random(seed + 17)
    for l1 in range(1, n + 1):
        for l2 in range(1, n + 1):
            for ndim in ((1, 2) if tier == 'quick' else (1, 2, 3)):
                for inner in (0, 1):
                    if ndim > 1 and (l1 > 3 or l2 > 3):
                        continue
                    ts.append({'harness': 'distance', 'fam': 'distance', 'l1': l1, 'l2': l2, 'ndim': ndim, 'inner': inner, 'est': l1 * l2 * ndim * 20})
                    ts.append({'harness': 'wps', 'fam': 'wps', 'l1': l1, 'l2': l2, 'ndim': ndim, 'inner': inner, 'est': l1 * l2 * ndim * 60})
            ts.append({'harness': 'bounds', 'fam': 'bounds', 'l1': l1, 'l2': l2, 'est': l1 * l2})
    nb = 4 if tier == 'quick' else 5
    for nser in range(1, nb + 1):
        for fn in ('dtw_distances_ptrs', 'dtw_distances_matrix', 'dtw_distances_ndim_ptrs', 'dtw_distances_ndim_matrix',
                   'dtw_distances_matrices', 'dtw_distances_ndim_matrices'):
            ts.append({'harness': 'distances', 'fam': 'distances', 'fn': fn, 'n': nser, 'est': nser ** 4})
    # DBA: averaging buffer of length t against collections of series of different lengths
    tmax = 3 if tier == 'quick' else 4
    for t_ in range(1, tmax + 1):
        for la in range(1, tmax + 1):
            for lb in range(1, la + 1):
                ts.append({'harness': 'dba', 'fam': 'dba', 't': t_, 'lens': [la, lb], 'est': t_ * (la + lb) * 15})
    ts.append({'harness': 'dba', 'fam': 'dba', 't': 5, 'lens': [5, 3], 'wide': True, 'est': 400})
    ts.append({'harness': 'dba', 'fam': 'dba', 't': 4, 'lens': [2, 5], 'wide': True, 'est': 300})
    if tier == 'thorough':
        ts.append({'harness': 'dba', 'fam': 'dba', 't': 6, 'lens': [6, 4], 'wide': True, 'est': 600})
        ts.append({'harness': 'dba', 'fam': 'dba', 't': 3, 'lens': [6, 2], 'wide': True, 'est': 600})
    # affinity (local concurrences) kernels
    amax = 3 if tier == 'quick' else 4
    for l1 in range(1, amax + 1):
        for l2 in range(1, amax + 1):
            ts.append({'harness': 'affinity', 'fam': 'affinity', 'l1': l1, 'l2': l2, 'est': l1 * l2 * 40})
    for l1, l2 in ((5, 5), (5, 6), (6, 4)):
        ts.append({'harness': 'affinity', 'fam': 'affinity', 'l1': l1, 'l2': l2, 'wide': True, 'est': 500})
    for l1 in range(1, amax + 1):
        for l2 in range(1, amax + 1):
            ts.append({'harness': 'wps-helpers', 'fam': 'wpshelp', 'l1': l1, 'l2': l2, 'est': l1 * l2 * 30})
    for l1, l2 in ((5, 5), (4, 6), (6, 3)):
        ts.append({'harness': 'wps-helpers', 'fam': 'wpshelp', 'l1': l1, 'l2': l2, 'wide': True, 'est': 400})
    for t in ts:
        t['tier'], t['seed'] = tier, seed
    ts.sort(key=lambda t: -t['est'])
    return ts


def _explore(irmod, sp, stats, meta, st, max_paths=1500, hook=None):
    """run one call specification under the explorer; monitors -> counterexamples"""
    from engine import irsym, cspec
    syms = {}

    def sym(name):
        if name not in syms:
            syms[name] = z3.Real(name)
        return syms[name]
    # collect symbols
    def walk(v):
        if isinstance(v, dict) and 'sym' in v:
            sym(v['sym'])
        elif isinstance(v, (list, tuple)):
            for x in v:
                walk(x)
        elif isinstance(v, dict):
            for x in v.values():
                walk(x)
    walk(sp)
    assume = []
    for nme in ('P', 'S', 'M'):
        if nme in syms:
            assume.append(syms[nme] >= 0 if nme == 'P' else syms[nme] > 0)
    for nme, v in syms.items():
        if nme.startswith('g_'):
            assume.append(v > 0)
    ex = Explorer(assume, max_paths=max_paths, stats=stats)
    for p in ex.explore(lambda: cspec.run_symbolic(irmod, sp, syms, machine_hook=hook)[0]):
        stats.queries += 1
        stats.nontrivial += 1 if p.pc else 0
        if p.exc is None:
            stats.unsat += 1
            continue
        if isinstance(p.exc, irsym.Violation):
            key = (meta['harness'], p.exc.kind) + ((json.dumps(meta.get('opts'), sort_keys=True),) if os.environ.get('VERIF_ALLCEX') else ())
            st['count'][key] = st['count'].get(key, 0) + 1
            stats.sat += 1
            if st['count'][key] > 3:
                continue
            s = z3.Solver()
            s.add(*assume)
            s.add(*p.facts())
            if s.check() != z3.sat:
                continue
            m = s.model()
            vals = {k: smt.model_val(m, v) for k, v in syms.items()}
            st['cex'].append(dict(meta, claim='no monitor fires (%s)' % p.exc.kind, monitor=str(p.exc)[:300], spec=sp, inputs=vals,
                                  soft=p.exc.kind in ('uninitialised-read',)))
        elif isinstance(p.exc, irsym.Unsupported):
            st['incon'] += 1
            st['unsupported'] = str(p.exc)[:200]
        else:
            raise p.exc
    st['trunc'] = st['trunc'] or ex.truncated
    st['incon'] += ex.inconclusive_paths


def run_task(cfg):
    from engine import irsym, ckern
    irmod = irsym.module()
    stats = smt.Stats()
    st = {'cex': [], 'incon': 0, 'trunc': False, 'count': {}}
    tier = cfg['tier']
    rnd = random.Random(cfg['seed'] * 13 + cfg.get('l1', 0) * 5 + cfg.get('l2', 0))
    act = active_regions(ID)
    fam = cfg['fam']
    sample = None
    if fam in ('distance', 'wps'):
        l1, l2, ndim, inner = cfg['l1'], cfg['l2'], cfg['ndim'], cfg['inner']
        fork_ok = l1 * l2 <= (6 if tier == 'quick' else 8)
        optsets = [{}, {'pen': True}]
        if fork_ok:
            optsets += [{'step': True}, {'md': True}, {'prune': True}]
            if l1 * l2 <= (4 if tier == 'quick' else 6):
                optsets += [{'step': True, 'md': True, 'pen': True}]
        elif l1 * l2 <= 9:
            optsets += [{'md': True}]
        wins = list(range(0, max(l1, l2) + 2))
        psis = _psi_set(l1, l2, tier, rnd)
        for w in wins:
            for psi in psis:
                for os_ in optsets:
                    if (os_.get('step') or os_.get('md') or os_.get('prune')) and (psi not in ((0, 0, 0, 0), (1, 1, 1, 1)) or w not in (0, 1, 2)):
                        continue
                    o = dict(os_, window=w, psi=psi)
                    meta = {'harness': cfg['harness'], 'l1': l1, 'l2': l2, 'ndim': ndim, 'inner': inner, 'opts': jnum(o)}
                    sett = _settings(o, inner)
                    bufs = [['s1', 'double', _series('a', l1, ndim)], ['s2', 'double', _series('b', l2, ndim)]]
                    if fam == 'distance':
                        if ndim == 1:
                            calls = [['dtw_distance', ['s1', l1, 's2', l2, 'settings'], 'double']]
                        else:
                            calls = [['dtw_distance_ndim', ['s1', l1, 's2', l2, ndim, 'settings'], 'double']]
                        sp = {'settings': sett, 'bufs': bufs, 'calls': calls}
                        _explore(irmod, sp, stats, meta, st)
                    else:
                        if 'F08-psi-gt-len' in act and False:
                            continue
                        conc = {k: (1.0 if isinstance(v, dict) else v) for k, v in sett.items()}
                        length, width = ckern.wps_dims(irmod, l1, l2, conc)
                        forky = bool(os_.get('step') or os_.get('md') or os_.get('prune'))
                        for keep, neg in ((True, True), (False, False)):
                            base_bufs = bufs + [['wps', 'double', length]]
                            if ndim == 1:
                                kname = 'dtw_warping_paths_euclidean' if (inner == 1 and not keep) else 'dtw_warping_paths'    # the exported wrapper of the inner_dist=1 kernel
                                kcall = [kname, ['wps', 's1', l1, 's2', l2, True, keep, neg, 'settings'], 'double']
                            else:
                                kcall = ['dtw_warping_paths_ndim', ['wps', 's1', l1, 's2', l2, True, keep, neg, ndim, 'settings'], 'double']
                            idxb = [['i1', 'idx', l1 + l2], ['i2', 'idx', l1 + l2]]
                            variants = [('expand', base_bufs + [['full', 'double', (l1 + 1) * (l2 + 1)]],
                                         [kcall, ['dtw_expand_wps', ['wps', 'full', l1, l2, 'settings'], 'void']])]
                            small = l1 * l2 <= (6 if tier == 'quick' else 9) and w in (0, 1, 2, max(l1, l2))
                            if keep and small:
                                variants.append(('best_path', base_bufs + idxb, [kcall, ['dtw_best_path', ['wps', 'i1', 'i2', l1, l2, 'settings'], 'idx']]))
                                if not forky:
                                    variants.append(('isclose', base_bufs + idxb,
                                                     [kcall, ['dtw_best_path_isclose', ['wps', 'i1', 'i2', l1, l2, 1e-5, 1e-8, 'settings'], 'idx']]))
                                    allsl = [(rb, re_, cb, ce) for rb in range(0, l1 + 1) for re_ in range(rb + 1, l1 + 2)
                                             for cb in range(0, l2 + 1) for ce in range(cb + 1, l2 + 2)]
                                    if 'F08-slice-offset' in act:
                                        allsl = []          # known finding: proper slices are excluded (full expansion is still monitored)
                                    rnd.shuffle(allsl)
                                    sb, sc_ = list(base_bufs), [kcall]
                                    for k, (rb, re_, cb, ce) in enumerate(allsl[:4]):
                                        sb.append(['sl%d' % k, 'double', (re_ - rb) * (ce - cb)])
                                        sc_.append(['dtw_expand_wps_slice', ['wps', 'sl%d' % k, l1, l2, rb, re_, cb, ce, 'settings'], 'void'])
                                    if len(sc_) > 1:
                                        variants.append(('slices', sb, sc_))
                                    if psi == (0, 0, 0, 0) and l1 * l2 <= 9:
                                        inb = spec.band_fn(l1, l2, w if w else None)
                                        cells = [(i, j) for i in range(l1) for j in range(l2) if inb(i, j)]
                                        rnd.shuffle(cells)
                                        for (ci_, cj_) in cells[:3]:
                                            variants.append(('customstart', base_bufs + idxb,
                                                             [kcall, ['dtw_best_path_customstart', ['wps', 'i1', 'i2', l1, l2, ci_ + 1, cj_ + 1, 'settings'], 'idx']]))
                                wp = ['dtw_warping_path', ['s1', l1, 's2', l2, 'i1', 'i2', 'plen', 'settings'], 'double'] if ndim == 1 else \
                                    ['dtw_warping_path_ndim', ['s1', l1, 's2', l2, 'i1', 'i2', 'plen', ndim, 'settings'], 'double']
                                variants.append(('warping_path', bufs + idxb + [['plen', 'idx', 1]], [wp]))
                            for vn, vb, vc in variants:
                                sp = {'settings': sett, 'bufs': vb, 'calls': vc}
                                _explore(irmod, sp, stats, dict(meta, keep=keep, neg=neg, variant=vn), st, max_paths=600)
                    if sample is None:
                        sample = {'harness': cfg['harness'], 'l1': l1, 'l2': l2, 'ndim': ndim, 'inner_dist': inner, 'options': jnum(o),
                                  'calls': [c[0] for c in sp['calls']], 'buffers': {b[0]: (b[2] if isinstance(b[2], int) else len(b[2])) for b in sp['bufs']}}
    elif fam == 'bounds':
        l1, l2 = cfg['l1'], cfg['l2']
        for w in range(0, max(l1, l2) + 2):
            for inner in (0, 1):
                meta = {'harness': 'bounds', 'l1': l1, 'l2': l2, 'ndim': 1, 'inner': inner, 'opts': {'window': w}}
                bufs = [['s1', 'double', _series('a', l1, 1)], ['s2', 'double', _series('b', l2, 1)]]
                calls = [['lb_keogh', ['s1', l1, 's2', l2, 'settings'], 'double'],
                         ['ub_euclidean' if inner == 0 else 'ub_euclidean_euclidean', ['s1', l1, 's2', l2], 'double'],
                         ['euclidean_distance' if inner == 0 else 'euclidean_distance_euclidean', ['s1', l1, 's2', l2], 'double']]
                sp = {'settings': {'window': w, 'inner_dist': inner}, 'bufs': bufs, 'calls': calls}
                _explore(irmod, sp, stats, meta, st)
        for ndim in (2, 3):
            if l1 * ndim > 8 or l2 * ndim > 8:
                continue
            for inner in (0, 1):
                meta = {'harness': 'bounds', 'l1': l1, 'l2': l2, 'ndim': ndim, 'inner': inner, 'opts': {}}
                bufs = [['s1', 'double', _series('a', l1, ndim)], ['s2', 'double', _series('b', l2, ndim)]]
                sfx = '' if inner == 0 else '_euclidean'
                calls = [['ub_euclidean_ndim' + sfx, ['s1', l1, 's2', l2, ndim], 'double'],
                         ['euclidean_distance_ndim' + sfx, ['s1', l1, 's2', l2, ndim], 'double']]
                sp = {'settings': {}, 'bufs': bufs, 'calls': calls}
                _explore(irmod, sp, stats, meta, st)
        sample = {'harness': 'bounds', 'l1': l1, 'l2': l2, 'calls': ['lb_keogh', 'ub_euclidean*', 'euclidean_distance*']}
    elif fam == 'distances':
        n, fn = cfg['n'], cfg['fn']
        sample = _distances(irmod, fn, n, stats, st, tier)
    elif fam == 'dba':
        t_, lens = cfg['t'], cfg['lens']
        wide = cfg.get('wide')
        n = len(lens)
        wins = (1, 2) if wide else (0, 1, 2)
        for w in wins:
            for psi in ((0, 0, 0, 0),) if wide else ((0, 0, 0, 0), (1, 1, 1, 1)):
                for ndim in (1,) if (wide or max(lens) > 2) else (1, 2):
                    for fn in ('dtw_dba_ptrs', 'dtw_dba_matrix'):
                        if fn == 'dtw_dba_matrix' and len(set(lens)) > 1:
                            continue
                        for mask in ([3], [2]) if not wide else ([3],):
                            sett = _settings({'window': w, 'psi': psi, 'pen': not wide}, 0)
                            bufs = []
                            cbuf = ['c', 'double_rw', [{'sym': 'c%d' % i} for i in range(t_ * ndim)]]
                            if fn == 'dtw_dba_ptrs':
                                for k in range(n):
                                    bufs.append(['ser%d' % k, 'double', [{'sym': 's%d_%d' % (k, i)} for i in range(lens[k] * ndim)]])
                                bufs += [['ptrs', 'ptrs', ['ser%d' % k for k in range(n)]], ['lens', 'idx', list(lens)], cbuf, ['mask', 'u8', mask]]
                                call = [fn, ['ptrs', n, 'lens', 'c', t_, 'mask', 0, ndim, 'settings'], 'void']
                            else:
                                bufs += [['mat', 'double', [{'sym': 's%d_%d' % (k, i)} for k in range(n) for i in range(lens[0] * ndim)]], cbuf, ['mask', 'u8', mask]]
                                call = [fn, ['mat', n, lens[0], 'c', t_, 'mask', 0, ndim, 'settings'], 'void']
                            sp = {'settings': sett, 'bufs': bufs, 'calls': [call]}
                            meta = {'harness': 'dba', 'fn': fn, 't': t_, 'lens': lens, 'ndim': ndim, 'opts': {'window': w, 'psi': list(psi), 'mask': mask}}
                            _explore(irmod, sp, stats, meta, st, max_paths=300)
                            if sample is None:
                                sample = {'harness': 'dba', 'fn': fn, 't': t_, 'lens': lens, 'window': w, 'buffers': {b[0]: (b[2] if isinstance(b[2], int) else len(b[2])) for b in bufs}}
    elif fam == 'affinity':
        l1, l2 = cfg['l1'], cfg['l2']
        wide = cfg.get('wide')
        wins = (2, 3) if wide else tuple(range(0, max(l1, l2) + 2))
        for w in wins:
            if 'F18-c-clamped-width' in active_regions('C18') and False:
                continue
            for tri in (False, True):
                for pen in (False, True):
                    if wide and (tri or not pen):
                        continue
                    sett = _settings({'window': w, 'psi': (0, 0, 0, 0), 'pen': pen}, 0)
                    conc = {k: (1.0 if isinstance(v, dict) else v) for k, v in sett.items()}
                    length, width = ckern.wps_dims(irmod, l1, l2, conc)
                    bufs = [['s1', 'double', _series('a', l1, 1)], ['s2', 'double', _series('b', l2, 1)], ['wps', 'double', length]]
                    kcall = ['dtw_warping_paths_affinity', ['wps', 's1', l1, 's2', l2, True, False, False, tri, {'sym': 'g_gamma'}, {'sym': 'T'}, {'sym': 'D'}, 0.5, 'settings'], 'double']
                    variants = [('expand', bufs + [['full', 'double', (l1 + 1) * (l2 + 1)]], [kcall, ['dtw_expand_wps_affinity', ['wps', 'full', l1, l2, 'settings'], 'void']])]
                    if not wide and l1 * l2 <= 6:
                        idxb = [['i1', 'idx', l1 + l2], ['i2', 'idx', l1 + l2]]
                        for (rs, cs_) in ((l1, l2), (1, 1), (l1, 1)):
                            variants.append(('best_path_affinity', bufs + idxb, [kcall, ['dtw_best_path_affinity', ['wps', 'i1', 'i2', l1, l2, rs, cs_, 'settings'], 'idx']]))
                    for vn, vb, vc in variants:
                        sp = {'settings': sett, 'bufs': vb, 'calls': vc}
                        meta = {'harness': 'affinity', 'l1': l1, 'l2': l2, 'variant': vn, 'opts': {'window': w, 'only_triu': tri, 'pen': pen}}
                        _explore(irmod, sp, stats, meta, st, max_paths=400)
                    if sample is None:
                        sample = {'harness': 'affinity', 'l1': l1, 'l2': l2, 'window': w, 'calls': [c[0] for c in vc], 'wps elements': length}
    elif fam == 'wpshelp':
        l1, l2 = cfg['l1'], cfg['l2']
        wide = cfg.get('wide')
        wins = (1, 2, 3) if wide else tuple(range(0, max(l1, l2) + 2))
        for w in wins:
            sett = _settings({'window': w, 'psi': (0, 0, 0, 0), 'pen': False}, 0)
            conc = {k: (1.0 if isinstance(v, dict) else v) for k, v in sett.items()}
            length, width = ckern.wps_dims(irmod, l1, l2, conc)
            if wide:    # index arithmetic only: concrete data keeps dtw_wps_max on one path
                sa, sb_ = [rnd.choice((0.0, 0.5, 1.0, 2.0)) for _ in range(l1)], [rnd.choice((0.0, 0.5, 1.0, 2.0)) for _ in range(l2)]
                tau, delta = 0.3, -0.2
            else:
                sa, sb_, tau, delta = _series('a', l1, 1), _series('b', l2, 1), {'sym': 'T'}, {'sym': 'D'}
            bufs = [['s1', 'double', sa], ['s2', 'double', sb_], ['wps', 'double', length], ['p', 'parts', [l1, l2]],
                    ['ro', 'idx', 1], ['co', 'idx', 1]]
            calls = [['dtw_warping_paths_affinity', ['wps', 's1', l1, 's2', l2, True, False, False, False, 1.0, tau, delta, 0.5, 'settings'], 'double'],
                     ['dtw_wps_max', ['p', 'wps', 'ro', 'co', l1, l2], 'idx']]
            for r_ in range(0, l1 + 1):
                calls.append(['dtw_wps_loc_columns', ['p', r_, 'ro', 'co', l1, l2], 'idx'])
                for c_ in range(0, l2 + 1):
                    calls.append(['dtw_wps_loc', ['p', r_, c_, l1, l2], 'idx'])
                    if r_ >= 1 and c_ >= 1:
                        calls.append(['dtw_wps_negativize_value', ['p', 'wps', l1, l2, r_, c_], 'bool'])
                        calls.append(['dtw_wps_positivize_value', ['p', 'wps', l1, l2, r_, c_], 'bool'])
            ranges = [(rb, re_, cb, ce) for rb in range(0, l1 + 1) for re_ in range(rb + 1, l1 + 2) for cb in range(0, l2 + 1) for ce in range(cb + 1, l2 + 2)]
            rnd.shuffle(ranges)
            ranges = [(0, l1 + 1, 0, l2 + 1), (1, l1 + 1, 1, l2 + 1)] + ranges[:(40 if wide else 12)]
            for (rb, re_, cb, ce) in ranges:
                for inter in (True, False):
                    calls.append(['dtw_wps_negativize', ['p', 'wps', l1, l2, rb, re_, cb, ce, inter], 'void'])
                    calls.append(['dtw_wps_positivize', ['p', 'wps', l1, l2, rb, re_, cb, ce, inter], 'void'])
            calls.append(['dtw_wps_max', ['p', 'wps', 'ro', 'co', l1, l2], 'idx'])
            sp = {'settings': sett, 'bufs': bufs, 'calls': calls}
            meta = {'harness': 'wps-helpers', 'l1': l1, 'l2': l2, 'opts': {'window': w}}
            _explore(irmod, sp, stats, meta, st, max_paths=300)
            if sample is None:
                sample = {'harness': 'wps-helpers', 'l1': l1, 'l2': l2, 'window': w, 'calls': sorted(set(c[0] for c in calls)), 'wps elements': length}
    # reachability: at least one path of the task ran each call sequence to its end with all monitors armed
    return {'stats': stats.as_dict(), 'cex': st['cex'], 'inconclusive': st['incon'], 'sample': sample, 'truncated': st['trunc'],
            'unsupported': st.get('unsupported'), 'twin': True if stats.unsat > 0 else None}


def distances_spec(fn, n, blk, lens, ndim):
    """call specification for one distance-matrix routine; the kernel is stubbed by the caller (machine hook)"""
    length_expr = None
    maxl = max(lens)
    bufs = []
    if 'ptrs' in fn:
        for k in range(n):
            bufs.append(['ser%d' % k, 'double', [float(k)] * (lens[k] * ndim)])
        bufs.append(['ptrs', 'ptrs', ['ser%d' % k for k in range(n)]])
        bufs.append(['lens', 'idx', list(lens)])
    elif 'matrices' in fn:
        bufs.append(['mr', 'double', [0.0] * (n * maxl * ndim)])
        bufs.append(['mc', 'double', [1.0] * (n * maxl * ndim)])
    else:
        bufs.append(['mat', 'double', [0.0] * (n * maxl * ndim)])
    return bufs


def _distances(irmod, fn, n, stats, st, tier):
    """all blocks for n series, output buffer of exactly dtw_distances_length elements, kernel = uninterpreted stub"""
    from engine import irsym, cspec
    ndim = 2 if 'ndim' in fn else 1
    lens = [1 + (k % 2) for k in range(n)] if 'ptrs' in fn else [2] * n
    maxl = max(lens)
    blocks = [None]
    for rb in range(0, n):
        for re_ in range(rb + 1, n + 1):
            for cb in range(0, n):
                for ce in range(cb + 1, n + 1):
                    for triu in (True, False):
                        blocks.append((rb, re_, cb, ce, triu))
    blocks += [(0, 0, 0, 0, True), (0, 0, 0, 0, False), (0, n, 0, 0, True), (0, 0, 0, n, False)]
    DIST = z3.Function('DISTK', z3.IntSort(), z3.RealSort())
    counter = [0]

    def hook(M):
        def kernel(M_, *a):
            counter[0] += 1
            return DIST(z3.IntVal(counter[0]))
        for k in ('dtw_distance', 'dtw_distance_ndim'):
            M.stubs[k] = kernel
    for b in blocks:
        bd = {'rb': 0, 're': 0, 'cb': 0, 'ce': 0, 'triu': True} if b is None else dict(zip(('rb', 're', 'cb', 'ce', 'triu'), b))
        # advertised length, computed by the C code itself
        M0 = irsym.Machine(irmod)
        blk0 = irsym.mk_block(M0, bd['rb'], bd['re'], bd['cb'], bd['ce'], bd['triu'])
        blk0.obj.writable = True
        try:
            length = M0.run('dtw_distances_length', [blk0, n, n])
        except irsym.Violation as e:
            st['cex'].append({'harness': 'distances', 'claim': 'no monitor fires (%s)' % e.kind, 'monitor': str(e)[:200], 'fn': 'dtw_distances_length',
                              'n': n, 'block': jnum(bd), 'inputs': {}, 'spec': None, 'soft': True})
            continue
        bufs = distances_spec(fn, n, bd, lens, ndim)
        bufs.append(['out', 'double', int(length)])
        if 'ptrs' in fn:
            args = ['ptrs', n, 'lens'] + ([ndim] if ndim > 1 else []) + ['out', 'block', 'settings']
        elif 'matrices' in fn:
            args = ['mr', n, maxl, 'mc', n, maxl] + ([ndim] if ndim > 1 else []) + ['out', 'block', 'settings']
        else:
            args = ['mat', n, maxl] + ([ndim] if ndim > 1 else []) + ['out', 'block', 'settings']
        sp = {'settings': {}, 'block': bd, 'bufs': bufs, 'calls': [[fn, args, 'idx']], 'block_writable': True}
        meta = {'harness': 'distances', 'fn': fn, 'n': n, 'block': jnum(bd)}

        def hook2(M):
            hook(M)
        counter[0] = 0
        _explore(irmod, sp, stats, meta, st, hook=hook2)
    return {'harness': 'distances', 'fn': fn, 'n': n, 'blocks': len(blocks), 'note': 'output buffer has exactly dtw_distances_length elements'}


# --------------------------------------------------------------------------------------------------
def replay(cex):
    from engine import cspec
    if cex.get('spec') is None:
        return {'reproduced': False, 'error': 'no call specification'}
    vals = {k: float(v) for k, v in unj(cex['inputs']).items()}
    kind = cex['claim']
    san = 'memory' if 'uninitialised' in kind else 'address,undefined'
    rep, out = cspec.san_run(cex['spec'], vals, sanitizer=san)
    return {'reproduced': bool(rep), 'observed': out[-700:], 'expected': 'no sanitizer report'}
