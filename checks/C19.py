"""C19 — distance-to-similarity and squashing are monotone, bounded and faithful to their formulas."""
import itertools
import math

import z3

from engine import smt, pysym, spec, dtwh
from engine.pysym import SReal, Explorer
from engine.runner import jnum, unj, active_regions

ID = 'C19'
ENGINE = 'PYSYM'
TECHNIQUE = 'symbolic execution of similarity.distance_to_similarity / squash on object arrays of symbolic reals (real NumPy code incl. np.quantile); exp as an uninterpreted monotone function; claims decided by z3 (QF_NRA + UF lemmas)'
BUDGET = {'quick': 300, 'thorough': 1800}
SOURCES = ['src/dtaidistance/similarity.py']
FUNCTIONS = ['similarity.distance_to_similarity', 'similarity.squash']
BOUNDS = {'quick': {'array shapes': '(1,), (2,), (3,), (1,2), (2,2)', 'r, x0': 'None | symbolic > 0', 'a': '0.5 (derived from the quantile when cover_quantile is given)', 'cover_quantile': 'False, 0.5, (0.5, 0.25)',
                    'keep_sign': 'False (True for squash with sizes <= 2)', 'base': 'None, 2'},
          'thorough': {'array shapes': '+ (4,), (1,3), (2,3)', 'cover_quantile': 'False, 0.25, 0.5, 0.9, (0.5, 0.25), (0.9, 0.5)'}}
OUTSIDE = ['numerical accuracy of exp / log / power', 'all-zero distance arrays (the documented default scale max(D) is 0: the formula is undefined)',
           'arrays larger than the bound']
ASSUMPTIONS = ['exp is an uninterpreted function with exp(0)=1, exp>0, strict monotonicity (pairwise lemmas)', 'log of concrete quantile targets is evaluated in floating point',
               'distances are non-negative reals, at least one of them positive']
RULE = ('configuration = (function, method, shape, explicit / derived parameters, cover_quantile, keep_sign); array entries and explicit '
        'parameters symbolic; one query per claim and execution path (np.quantile and sorting fork).')
EXPLANATION = 'bounded symbolic model checking of the similarity transforms, solver = z3'

R, A, X0 = z3.Real('r'), z3.Real('a'), z3.Real('x0')
AV = smt.rv(0.5)


def tasks(tier, seed):
    shapes = [(1,), (2,), (3,), (1, 2), (2, 2)] + ([(4,), (1, 3), (2, 3)] if tier == 'thorough' else [])
    cqs = [False, 0.5, (0.5, 0.25)] + ([0.25, 0.9, (0.9, 0.5)] if tier == 'thorough' else [])
    ts = []
    for sh in shapes:
        for m in ('exponential', 'gaussian', 'reciprocal', 'reverse'):
            for explicit in (False, True):
                for cq in cqs:
                    if explicit and cq is not False:
                        continue
                    ts.append({'harness': 'd2s/' + m, 'fn': 'd2s', 'method': m, 'shape': list(sh), 'explicit': explicit, 'cq': jnum(cq),
                               'est': 4 ** (sh[0] * (sh[1] if len(sh) > 1 else 1))})
        for m in ('logistic', 'gaussian', 'exponential'):
            for explicit in (False, True):
                for cq in cqs:
                    if explicit and cq is not False:
                        continue
                    for ks in (False, True):
                        for base in (None, 2):
                            size = sh[0] * (sh[1] if len(sh) > 1 else 1)
                            if (ks or base) and size > 2:
                                continue
                            ts.append({'harness': 'squash/' + m, 'fn': 'squash', 'method': m, 'shape': list(sh), 'explicit': explicit,
                                       'cq': jnum(cq), 'keep_sign': ks, 'base': base, 'est': 4 ** size})
    for t in ts:
        t['tier'], t['seed'] = tier, seed
    ts.sort(key=lambda t: -t['est'])
    return ts


def _install_extras(sim):
    """models needed only here: np.log / np.sign on proxies, number ** proxy"""
    np = sim.np
    realnp = pysym._np()

    def slog(x):
        if isinstance(x, SReal):
            raise pysym.Realised('log of a symbolic value')
        return realnp.log(x)
    np.log = slog

    def ssign(x):
        if isinstance(x, realnp.ndarray) and x.dtype == object:
            out = realnp.empty(x.shape, dtype=object)
            for idx in realnp.ndindex(x.shape):
                v = x[idx]
                out[idx] = (1 if v > 0 else (-1 if v < 0 else 0)) if isinstance(v, SReal) else realnp.sign(v)
            return out
        return realnp.sign(x)
    np.sign = ssign

    def spower(b, e):
        if isinstance(e, realnp.ndarray) and e.dtype == object and not isinstance(b, realnp.ndarray):
            out = realnp.empty(e.shape, dtype=object)
            for idx in realnp.ndindex(e.shape):
                out[idx] = spower(b, e[idx])
            return out
        if isinstance(e, SReal) and not isinstance(b, SReal):
            return SReal(pysym.exp_term(e.t * smt.rv(math.log(b))))
        if isinstance(b, realnp.ndarray) and b.dtype == object:
            return b ** e
        if isinstance(b, SReal):
            return b ** e
        return realnp.power(b, e)
    np.power = spower


def run_task(cfg):
    sim = dtwh.load('similarity')
    _install_extras(sim)
    np = pysym._np()
    stats = smt.Stats()
    act = active_regions(ID)
    cexs, incon, sample = [], 0, None
    sh = tuple(cfg['shape'])
    size = sh[0] * (sh[1] if len(sh) > 1 else 1)
    dv = [z3.Real('d%d' % i) for i in range(size)]
    fn, method, explicit = cfg['fn'], cfg['method'], cfg['explicit']
    cq = cfg['cq']
    if isinstance(cq, list):
        cq = tuple(cq)
    ks, base = cfg.get('keep_sign', False), cfg.get('base')
    try:
        D = pysym.objarray([SReal(v) for v in dv]).reshape(sh)
        if fn == 'squash' and ks:
            assume = [z3.Or(*[v != 0 for v in dv])]
        else:
            assume = [v >= 0 for v in dv] + [z3.Or(*[v > 0 for v in dv])]
        if cq is not False:
            assume += [v > 0 for v in dv]          # the derived scale divides by the quantile: zero quantiles are outside the claim
        assume += [R > 0, A > 0, X0 >= 0]
        kw = {'method': method, 'return_params': True}
        if cq is not False:
            kw['cover_quantile'] = cq
        if explicit:
            kw['r'] = SReal(R)
            if fn == 'd2s' and method == 'reciprocal':
                kw['a'] = 0.5
            if fn == 'squash' and method == 'logistic':
                kw['x0'] = SReal(X0)
        if fn == 'squash':
            kw['keep_sign'] = ks
            if base:
                kw['base'] = base
        f = sim.distance_to_similarity if fn == 'd2s' else sim.squash
        meta = {'harness': cfg['harness'], 'fn': fn, 'method': method, 'shape': list(sh), 'explicit': explicit, 'cq': jnum(cq),
                'keep_sign': ks, 'base': base}
        syms = {'d%d' % i: v for i, v in enumerate(dv)}
        syms.update({'r': R if explicit else None, 'a': None,
                     'x0': X0 if (explicit and fn == 'squash' and method == 'logistic') else None})

        def check(facts, neg, claim, lemmas='pairwise'):
            nonlocal incon
            cx = dtwh.claim(stats, facts, neg, None, syms, dict(meta, claim=claim), lemmas=lemmas, refine=False, timeout_ms=20000)
            if cx == 'unknown':
                incon += 1
            elif cx is not None:
                cexs.append(cx)

        def run():
            out = f(D, **kw)
            S = out[0]
            params = out[1:]
            kw2 = dict(kw)
            kw2.pop('cover_quantile', None)
            kw2['r'] = params[0]
            if fn == 'squash':
                kw2['x0'] = params[1]
            S2 = f(D, **kw2)[0]
            return S, params, S2
        ex = Explorer(assume, max_paths=300, stats=stats)
        for p in ex.explore(run):
            facts = assume + p.facts()
            if p.exc is not None:
                if isinstance(p.exc, (pysym.Realised, NotImplementedError, ZeroDivisionError)):
                    # ZeroDivisionError: a degenerate derived scale (e.g. log(1) = 0); NumPy returns inf/nan there: outside the claim
                    incon += 1
                    continue
                check(facts, z3.BoolVal(True), '%s(method=%s) returns (it raised %s: %s)' % (fn, method, type(p.exc).__name__, str(p.exc)[:60]), lemmas='unary')
                continue
            S, params, S2 = p.result
            if isinstance(params[0], SReal):
                # a derived scale must be positive for the transform to be the documented (monotone) one
                facts = facts + [params[0].t > 0]
                rr, _m = smt.decide(smt.Stats(), facts, z3.BoolVal(True), lemmas='pairwise', want_model=False)
                if rr != 'sat':
                    continue
            Sf = [x for x in np.asarray(S, dtype=object).flat]
            S2f = [x for x in np.asarray(S2, dtype=object).flat]
            if tuple(np.asarray(S).shape) != sh:
                check(facts, z3.BoolVal(True), 'result has the shape of the input', lemmas='unary')
                continue
            st = [smt.rv(x) if not isinstance(x, SReal) else x.t for x in Sf]
            st2 = [smt.rv(x) if not isinstance(x, SReal) else x.t for x in S2f]
            # re-application with the reported parameters
            if not (fn == 'd2s' and method == 'reciprocal' and cq is not False and 'F19-reciprocal-a' in act):
                check(facts, z3.Or(*[a != b for a, b in zip(st, st2)]), 're-applying the transform with the reported parameters reproduces the output')
            # monotone
            mono = []
            for i, j in itertools.permutations(range(size), 2):
                if fn == 'd2s':
                    mono.append(z3.And(dv[i] <= dv[j], st[i] < st[j]))
                else:
                    mono.append(z3.And(dv[i] <= dv[j], st[i] > st[j]))
            if mono:
                check(facts, z3.Or(*mono), 'monotone: ' + ('non-increasing in the distance' if fn == 'd2s' else 'non-decreasing'))
            # range
            if fn == 'd2s' and not explicit and cq is False:
                check(facts, z3.Or(*[z3.Or(s < 0, s > 1) for s in st]), 'similarity within [0, 1] under the default scale')
                check(facts, z3.Or(*[z3.And(d == 0, z3.Or(*[s < s2 for s2 in st])) for d, s in zip(dv, st)]),
                      'a zero distance maps to the maximal similarity')
            if fn == 'squash' and not ks:
                check(facts, z3.Or(*[z3.Or(s < 0, s > 1) for s in st]), 'squashed values within [0, 1]')
            if fn == 'squash' and ks:
                # keep_sign: sign(x) * (f(|x|) - f(0)): non-negative inputs stay within [0, 1] (0 maps to 0), negative ones within [-1, 0]
                check(facts, z3.Or(*[z3.Or(z3.And(d >= 0, z3.Or(s < 0, s > 1)), z3.And(d <= 0, z3.Or(s > 0, s < -1))) for d, s in zip(dv, st)]),
                      'keep_sign: non-negative inputs map into [0, 1], non-positive ones into [-1, 0]')
            # documented formula for explicit parameters
            if explicit:
                want = []
                for d in dv:
                    if fn == 'd2s':
                        if method == 'exponential':
                            want.append(pysym.exp_term(pysym.div_term(-d, R)))
                        elif method == 'gaussian':
                            want.append(pysym.exp_term(pysym.div_term(-pysym.square_term(d), pysym.square_term(R))))
                        elif method == 'reciprocal':
                            want.append(pysym.div_term(smt.rv(1), R + d * AV))
                        else:
                            want.append(pysym.div_term(R - d, R))
                    elif not ks and not base:
                        if method == 'logistic':
                            want.append(pysym.div_term(smt.rv(1), 1 + pysym.exp_term(pysym.div_term(-(d - X0), R))))
                        elif method == 'gaussian':
                            want.append(1 - pysym.exp_term(pysym.div_term(-pysym.square_term(d), pysym.square_term(R))))
                        else:
                            want.append(1 - pysym.exp_term(pysym.div_term(-d, R)))
                if want:
                    check(facts, z3.Or(*[a != b for a, b in zip(st, want)]), 'documented formula with explicit parameters')
            if sample is None:
                sample = {'harness': cfg['harness'], 'shape': list(sh), 'explicit': explicit, 'cover_quantile': jnum(cq),
                          'first_output_term': str(st[0])[:200]}
        incon += ex.inconclusive_paths
    finally:
        pass
    return {'stats': stats.as_dict(), 'cex': cexs, 'inconclusive': incon, 'sample': sample}


# --------------------------------------------------------------------------------------------------
def replay(cex):
    from dtaidistance import similarity as sim
    import numpy as np
    inp = unj(cex['inputs'])
    sh = tuple(cex['shape'])
    size = sh[0] * (sh[1] if len(sh) > 1 else 1)
    D = np.array([float(inp['d%d' % i]) for i in range(size)]).reshape(sh)
    fn, method = cex['fn'], cex['method']
    cq = cex['cq']
    if isinstance(cq, list):
        cq = tuple(cq)
    kw = {'method': method, 'return_params': True}
    if cq is not False:
        kw['cover_quantile'] = cq
    if cex['explicit']:
        kw['r'] = float(inp['r'])
        if fn == 'd2s' and method == 'reciprocal':
            kw['a'] = 0.5
        if inp.get('x0') is not None:
            kw['x0'] = float(inp['x0'])
    if fn == 'squash':
        kw['keep_sign'] = bool(cex.get('keep_sign'))
        if cex.get('base'):
            kw['base'] = cex['base']
    f = sim.distance_to_similarity if fn == 'd2s' else sim.squash
    claim = cex['claim']
    try:
        out = f(D, **kw)
    except Exception as e:
        return {'reproduced': 'returns' in claim, 'observed': 'raised %r' % (e,)}
    S = np.asarray(out[0], dtype=float)
    d, s = D.flatten(), S.flatten()
    tol = 1e-9
    if 'returns' in claim:
        return {'reproduced': False, 'observed': 'returned'}
    if claim.startswith('monotone'):
        bad = any((d[i] <= d[j]) and ((s[i] < s[j] - tol) if fn == 'd2s' else (s[i] > s[j] + tol)) for i in range(size) for j in range(size))
        return {'reproduced': bool(bad), 'observed': s.tolist(), 'expected': 'monotone in ' + str(d.tolist())}
    if claim.startswith('keep_sign'):
        bad = any((d[i] >= 0 and (s[i] < -tol or s[i] > 1 + tol)) or (d[i] <= 0 and (s[i] > tol or s[i] < -1 - tol)) or np.isnan(s[i]) for i in range(size))
        return {'reproduced': bool(bad), 'observed': s.tolist(), 'expected': 'sign kept, magnitude within [0, 1] for ' + str(d.tolist())}
    if 'within [0, 1]' in claim:
        bad = bool(np.any(s < -tol) or np.any(s > 1 + tol) or np.any(np.isnan(s)))
        return {'reproduced': bad, 'observed': s.tolist()}
    if 'zero distance' in claim:
        bad = any(d[i] == 0 and s[i] < s.max() - tol for i in range(size))
        return {'reproduced': bool(bad), 'observed': s.tolist()}
    if 're-applying' in claim:
        kw2 = dict(kw)
        kw2.pop('cover_quantile', None)
        kw2['r'] = out[1]
        if fn == 'squash':
            kw2['x0'] = out[2]
        S2 = np.asarray(f(D, **kw2)[0], dtype=float).flatten()
        return {'reproduced': not np.allclose(s, S2, rtol=1e-9, atol=1e-12, equal_nan=False), 'observed': [s.tolist(), S2.tolist()]}
    if 'documented formula' in claim:
        r = kw.get('r')
        a = kw.get('a', 1)
        x0 = kw.get('x0', 0)
        if fn == 'd2s':
            want = {'exponential': np.exp(-d / r), 'gaussian': np.exp(-d ** 2 / r ** 2), 'reciprocal': 1 / (r + d * a), 'reverse': (r - d) / r}[method]
        else:
            want = {'logistic': 1 / (1 + np.exp(-(d - x0) / r)), 'gaussian': 1 - np.exp(-d ** 2 / r ** 2), 'exponential': 1 - np.exp(-d / r)}[method]
        return {'reproduced': not np.allclose(s, want, rtol=1e-9, atol=1e-12), 'observed': s.tolist(), 'expected': want.tolist()}
    return {'reproduced': False, 'error': 'claim not recognised'}
