"""C09 — LB_Keogh <= DTW <= Euclidean upper bound, same in both engines; only_ub returns the Euclidean distance."""
import math
from fractions import Fraction

import z3

from engine import smt, pysym, spec, dtwh
from engine.pysym import SReal, Explorer
from engine.smt import ER, INF
from engine.runner import jnum, unj, active_regions

ID = 'C09'
ENGINE = 'PYSYM + IRSYM'
TECHNIQUE = 'symbolic execution of the real bound routines (Python and C via LLVM IR) on symbolic series; SMT queries against the DTW oracle and across engines (z3)'
BUDGET = {'quick': 360, 'thorough': 2400}
SOURCES = ['src/dtaidistance/dtw.py', 'src/dtaidistance/ed.py', 'src/dtaidistance/innerdistance.py',
           'src/DTAIDistanceC/DTAIDistanceC/dd_dtw.c', 'src/DTAIDistanceC/DTAIDistanceC/dd_ed.c']
FUNCTIONS = ['dtw.distance(use_c=True, only_ub=True) front-end route (compiled module replaced by transcribed glue + C kernel)', 'dtw.lb_keogh', 'ed.distance', 'dtw.ub_euclidean', 'dtw.distance(only_ub=True)', 'dd_dtw.c lb_keogh, lb_keogh_euclidean, ub_euclidean*',
             'dd_ed.c euclidean_distance, _euclidean, _ndim, _ndim_euclidean', 'dd_dtw.c dtw_distance*(only_ub)']
BOUNDS = {'quick': {'r,c': '1..3 (Euclidean: 1..4)', 'window': 'None, 1..max+1', 'ndim (upper bound)': '1..2', 'inner': 'both'},
          'thorough': {'r,c': '1..5 (Euclidean: 1..6)', 'window': 'None, 1..max+1', 'ndim (upper bound)': '1..3', 'inner': 'both'}}
OUTSIDE = ['floating point rounding', 'sizes above the bound', 'the Cython wrappers']
ASSUMPTIONS = ['DTW = spec_dtw oracle (tied to the code by C01/C02)', 'SQ abstraction with pairwise monotonicity lemmas; sat answers refined exactly and replayed']
RULE = ('configuration = (claim, engine, inner distance, ndim, r, c, window); series values (any sign) symbolic; one query per '
        '(joint) execution path.')
EXPLANATION = 'bounded symbolic model checking of the bound routines, solver = z3'

P = z3.Real('P')


def prepare(tier):
    from engine import irsym
    irsym.prepare()


def tasks(tier, seed):
    n = 3 if tier == 'quick' else 5
    ne = n + 1
    ts = []
    for r in range(1, ne + 1):
        for c in range(1, ne + 1):
            for inner in ('sq', 'abs'):
                for ndim in ((1, 2) if tier == 'quick' else (1, 2, 3)):
                    if ndim > 1 and (r > 3 or c > 3):
                        continue
                    ts.append({'harness': 'ed/%s/%dd' % (inner, ndim), 'what': 'ed', 'inner': inner, 'ndim': ndim, 'r': r, 'c': c,
                               'est': r * c * ndim})
                    if r <= 3 and c <= 3:
                        ts.append({'harness': 'only_ub/%s/%dd' % (inner, ndim), 'what': 'only_ub', 'inner': inner, 'ndim': ndim,
                                   'r': r, 'c': c, 'est': r * c * ndim})
                if r <= n and c <= n:
                    for w in dtwh.windows(r, c):
                        ts.append({'harness': 'lb/%s' % inner, 'what': 'lb', 'inner': inner, 'ndim': 1, 'r': r, 'c': c, 'window': w,
                                   'est': 3 ** r * c})
    for t in ts:
        t['tier'], t['seed'] = tier, seed
    ts.sort(key=lambda t: -t['est'])
    return ts


def _c_call(irmod, fn, mode, settings=None):
    from engine import irsym
    M = irsym.Machine(irmod)
    a = M.new_doubles('s1', dtwh.flat_terms(mode.a))
    b = M.new_doubles('s2', dtwh.flat_terms(mode.b))
    args = [a, mode.r, b, mode.c]
    if mode.ndim > 1 and 'ndim' in fn:
        args.append(mode.ndim)
    if settings is not None:
        args.append(irsym.mk_settings(M, **settings))
    return M.run(fn, args)


def run_task(cfg):
    from engine import irsym
    dtw, innerdistance, ed = dtwh.load('dtw', 'innerdistance', 'ed')
    irmod = irsym.module()
    what, inner, ndim, r, c = cfg['what'], cfg['inner'], cfg['ndim'], cfg['r'], cfg['c']
    innername = 'squared euclidean' if inner == 'sq' else 'euclidean'
    stats = smt.Stats()
    st = {'cex': [], 'incon': 0, 'sample': None}
    mode = dtwh.SeriesMode(r, c, innername, ndim=ndim)
    act = active_regions(ID)

    def check(facts, neg, claim, opts, lemmas='pairwise', syms=None):
        meta = {'harness': cfg['harness'], 'what': what, 'inner': inner, 'ndim': ndim, 'r': r, 'c': c, 'claim': claim,
                'opts': jnum(opts)}
        cx = dtwh.claim(stats, facts, neg, mode, syms or {}, meta, lemmas=lemmas)
        if cx == 'unknown':
            st['incon'] += 1
        elif cx is not None:
            st['cex'].append(cx)
        if st['sample'] is None:
            st['sample'] = {'harness': cfg['harness'], 'r': r, 'c': c, 'options': jnum(opts), 'query': claim + ' -- negated, unsat expected'}

    def ed_spec():
        n = min(r, c)
        tot = None
        for i in range(max(r, c)):
            t = mode.point(min(i, r - 1), min(i, c - 1)) if not (i < n) else mode.point(i, i)
            tot = t if tot is None else tot + t
        return tot

    cfun = {('sq', 1): 'euclidean_distance', ('abs', 1): 'euclidean_distance_euclidean',
            ('sq', 2): 'euclidean_distance_ndim', ('abs', 2): 'euclidean_distance_ndim_euclidean'}[(inner, min(ndim, 2))]
    if what == 'ed':
        o = {}
        for f1, e1, p1 in dtwh.py_paths(lambda: ed.distance(mode.s1, mode.s2, inner_dist=innername, use_ndim=ndim > 1), mode, [], stats):
            if e1 is None:
                check(f1, z3.BoolVal(True), 'ed.distance raises %s' % type(p1.exc).__name__, o)
                continue
            check(f1, e1.val != ed_spec(), 'ed.distance = padded sum of point distances', o)
            # upper bound of the penalty-free DTW for every window
            for w in dtwh.windows(r, c):
                unb = spec.spec_dtw(mode.D, r, c, w, 0, None)
                check(f1, z3.Not(smt.er_le(unb, e1)), 'DTW(no penalty) <= Euclidean distance', {'window': w}, lemmas='unary')
            for f2, e2, p2 in dtwh.py_paths(lambda: _c_call(irmod, cfun, mode), mode, f1, stats):
                if e2 is None:
                    if isinstance(p2.exc, irsym.Violation):
                        check(f2, z3.BoolVal(True), 'C %s leaves its buffers (%s)' % (cfun, p2.exc.kind), o)
                        continue
                    raise p2.exc
                check(f2, smt.er_neq(e1, e2), 'C %s = Python ed.distance' % cfun, o)
            ubf = 'ub_' + cfun.replace('_distance', '')
            for f2, e2, p2 in dtwh.py_paths(lambda: _c_call(irmod, ubf, mode), mode, f1, stats):
                if e2 is None:
                    continue
                check(f2, smt.er_neq(e1, e2), 'C %s = Python ub_euclidean' % ubf, o)
    elif what == 'only_ub':
        o = {}
        for f1, e1, p1 in dtwh.py_paths(lambda: ed.distance(mode.s1, mode.s2, inner_dist=innername, use_ndim=ndim > 1), mode, [], stats):
            if e1 is None:
                continue
            kw = {'inner_dist': innername}
            if ndim > 1:
                kw['use_ndim'] = True
            if 'F09-only-ub-squared' not in act:
                for f2, e2, p2 in dtwh.py_paths(lambda: dtw.distance(mode.s1, mode.s2, only_ub=True, **kw), mode, f1, stats):
                    if e2 is None:
                        check(f2, z3.BoolVal(True), 'Python distance(only_ub=True) raises %s' % type(p2.exc).__name__, {'engine': 'py'})
                        continue
                    check(f2, smt.er_neq(e1, e2), 'Python distance(only_ub=True) returns the Euclidean distance', {'engine': 'py'})
                for f2, e2, p2 in dtwh.c_paths(irmod, dtw, mode, {'inner_dist': innername}, f1, stats, only_ub=True):
                    if e2 is None:
                        continue
                    check(f2, smt.er_neq(e1, e2), 'C dtw_distance*(only_ub) returns the Euclidean distance', {'engine': 'c'})
                # the same request through the Python front-end of the C engine: dtw.distance(use_c=True, only_ub=True) with the
                # compiled module replaced by the transcribed glue + the real C kernel
                stub = dtwh.CCStub(irmod)
                saved = dtw.dtw_cc
                dtw.dtw_cc = stub
                try:
                    for f2, e2, p2 in dtwh.py_paths(lambda: dtw.distance(mode.s1, mode.s2, only_ub=True, use_c=True, **kw), mode, f1, stats):
                        if e2 is None:
                            if isinstance(p2.exc, (pysym.Realised, NotImplementedError)):
                                st['incon'] += 1
                                continue
                            check(f2, z3.BoolVal(True), 'distance(use_c=True, only_ub=True) raises %s' % type(p2.exc).__name__, {'engine': 'c-frontend'})
                            continue
                        check(f2, smt.er_neq(e1, e2), 'distance(use_c=True, only_ub=True) returns the Euclidean distance', {'engine': 'c-frontend'})
                finally:
                    dtw.dtw_cc = saved
    elif what == 'lb':
        w = cfg['window']
        o = {'window': w}
        unb = spec.spec_dtw(mode.D, r, c, w, mode.tr(P), None)
        for f1, e1, p1 in dtwh.py_paths(lambda: dtw.lb_keogh(mode.s1, mode.s2, window=w, inner_dist=innername), mode, [P >= 0], stats):
            if e1 is None:
                check(f1, z3.BoolVal(True), 'lb_keogh raises %s' % type(p1.exc).__name__, o)
                continue
            check(f1, z3.Not(smt.er_le(e1, unb)), 'LB_Keogh(window) <= DTW(window, any penalty)', o, syms={'penalty': P})
            cs = {'window': 0 if w is None else w, 'inner_dist': 0 if inner == 'sq' else 1}
            for f2, e2, p2 in dtwh.py_paths(lambda: _c_call(irmod, 'lb_keogh', mode, cs), mode, f1, stats):
                if e2 is None:
                    if isinstance(p2.exc, irsym.Violation):
                        check(f2, z3.BoolVal(True), 'C lb_keogh leaves its buffers (%s)' % p2.exc.kind, o)
                        continue
                    raise p2.exc
                check(f2, smt.er_neq(e1, e2), 'C lb_keogh = Python lb_keogh', o)
    return {'stats': stats.as_dict(), 'cex': st['cex'], 'inconclusive': st['incon'], 'sample': st['sample']}


# --------------------------------------------------------------------------------------------------
def replay(cex):
    from dtaidistance import dtw, ed
    from engine import native
    import numpy as np
    inp = unj(cex['inputs'])
    o = unj(cex['opts'])
    what, inner, ndim, r, c = cex['what'], cex['inner'], cex['ndim'], cex['r'], cex['c']
    innername = 'squared euclidean' if inner == 'sq' else 'euclidean'
    s1, s2 = dtwh.fl(inp['s1']), dtwh.fl(inp['s2'])
    a1, a2 = (np.array(s1), np.array(s2)) if ndim > 1 else (s1, s2)
    claim = cex['claim']
    L = native.lib()
    fa, fb = native.Fenced(native.flat(s1)), native.Fenced(native.flat(s2))
    cfun = {('sq', 1): 'euclidean_distance', ('abs', 1): 'euclidean_distance_euclidean',
            ('sq', 2): 'euclidean_distance_ndim', ('abs', 2): 'euclidean_distance_ndim_euclidean'}[(inner, min(ndim, 2))]

    def c_ed(fn):
        f = getattr(L, fn)
        return f(fa.ptr, r, fb.ptr, c, ndim) if 'ndim' in fn else f(fa.ptr, r, fb.ptr, c)
    try:
        e = ed.distance(a1, a2, inner_dist=innername, use_ndim=ndim > 1)
        D = dtwh.conc_D('series', innername, {'s1': s1, 's2': s2})
        if 'padded sum' in claim:
            n = min(r, c)
            tot = sum(D[min(i, r - 1)][min(i, c - 1)] for i in range(max(r, c)))
            want = dtwh.conc_result('series', innername, tot)
            return {'reproduced': not spec.close(e, want), 'observed': e, 'expected': want}
        if 'DTW(no penalty) <=' in claim:
            w = None if o.get('window') is None else int(o['window'])
            d = dtwh.conc_result('series', innername, spec.conc_dtw(D, r, c, w, 0, None))
            return {'reproduced': d > e * (1 + 1e-9) + 1e-12, 'observed': {'dtw': d, 'ed': e}, 'expected': 'dtw <= ed'}
        if claim.startswith('C ') and 'ed.distance' in claim:
            v = c_ed(cfun)
            return {'reproduced': not spec.close(v, e), 'observed': {'c': v, 'python': e}, 'expected': 'equal'}
        if claim.startswith('C ub_'):
            v = c_ed('ub_' + cfun.replace('_distance', ''))
            return {'reproduced': not spec.close(v, e), 'observed': {'c': v, 'python': e}, 'expected': 'equal'}
        if 'only_ub' in claim:
            if o.get('engine') == 'py':
                kw = {'inner_dist': innername}
                if ndim > 1:
                    kw['use_ndim'] = True
                v = dtw.distance(a1, a2, only_ub=True, **kw)
            elif o.get('engine') == 'c-frontend':
                # real Python front-end; the extension module is replaced by the transcribed glue + the library compiled from the tree
                class NativeCC:
                    @staticmethod
                    def distance(x, y, **k):
                        return native.distance(list(x), list(y), dtwh.pyx_settings(k), ndim=1)

                    @staticmethod
                    def distance_ndim(x, y, **k):
                        return native.distance([list(v_) for v_ in x], [list(v_) for v_ in y], dtwh.pyx_settings(k), ndim=ndim)
                kw = {'inner_dist': innername}
                if ndim > 1:
                    kw['use_ndim'] = True
                saved = dtw.dtw_cc
                dtw.dtw_cc = NativeCC
                try:
                    v = dtw.distance(a1, a2, only_ub=True, use_c=True, **kw)
                finally:
                    dtw.dtw_cc = saved
            else:
                v = native.distance(s1, s2, {'only_ub': True, 'inner_dist': 0 if inner == 'sq' else 1}, ndim=ndim)
            return {'reproduced': not spec.close(v, e), 'observed': {'only_ub': v, 'ed': e}, 'expected': 'equal'}
        if 'LB_Keogh' in claim or 'lb_keogh' in claim:
            w = None if o.get('window') is None else int(o['window'])
            lb = dtw.lb_keogh(s1, s2, window=w, inner_dist=innername)
            if 'C lb_keogh' in claim:
                st = native.settings({'window': 0 if w is None else w, 'inner_dist': 0 if inner == 'sq' else 1})
                import ctypes
                v = L.lb_keogh(fa.ptr, r, fb.ptr, c, ctypes.byref(st))
                return {'reproduced': not spec.close(v, lb), 'observed': {'c': v, 'python': lb}, 'expected': 'equal'}
            pen = float(inp.get('penalty', 0) or 0)
            d = dtwh.conc_result('series', innername, spec.conc_dtw(D, r, c, w, dtwh.conc_tr('series', innername, pen), None))
            return {'reproduced': lb > d * (1 + 1e-9) + 1e-12, 'observed': {'lb': lb, 'dtw': d}, 'expected': 'lb <= dtw'}
    except Exception as ex:
        return {'reproduced': 'raises' in claim, 'observed': 'raised %r' % (ex,)}
    return {'reproduced': False, 'error': 'claim not recognised: ' + claim}
