"""C10 — identity, non-negativity, symmetry, option monotonicity, window 1 => Euclidean."""
import random

import z3

from engine import smt, pysym, spec, dtwh
from engine.pysym import SReal, Explorer
from engine.smt import ER
from engine.runner import jnum, unj

ID = 'C10'
ENGINE = 'PYSYM + IRSYM'
TECHNIQUE = 'pairs of symbolic executions of the real code (Python, and C via LLVM IR) on shared z3 variables; relational queries (z3)'
BUDGET = {'quick': 360, 'thorough': 2400}
SOURCES = ['src/dtaidistance/dtw.py', 'src/dtaidistance/ed.py', 'src/dtaidistance/innerdistance.py',
           'src/DTAIDistanceC/DTAIDistanceC/dd_dtw.c', 'src/DTAIDistanceC/DTAIDistanceC/dd_ed.c']
FUNCTIONS = ['dtw.distance', 'ed.distance', 'dd_dtw.c dtw_distance / dtw_distance_euclidean / dtw_distance_ndim', 'dd_ed.c euclidean_distance']
BOUNDS = {'quick': {'r,c': '1..4 (max_step pairs: r*c <= 4; C engine: <= 3)', 'inner distance (C)': 'squared euclidean; euclidean for identity / symmetry / window / psi', 'window': 'all', 'psi': '0..2 / tuples', 'ndim (C)': '1..2'},
          'thorough': {'r,c': '1..6 (max_step pairs: r*c <= 9; C engine: <= 4)', 'window': 'all', 'psi': '0..3 / tuples', 'ndim (C)': '1..2'}}
OUTSIDE = ['floating point rounding', 'sizes above the bound', 'mirroring step of distances_array_to_matrix (C06)']
ASSUMPTIONS = ['cost-matrix mode: every non-negative cost matrix is realisable through a user supplied inner distance',
               'symmetry is checked as d(D, psi) = d(D^T, psi with the per-series entries swapped)',
               'series mode uses SQ/SQRT abstractions with lemmas']
RULE = ('configuration = (law, engine, r, c, options); cost entries / series / penalties / max_step symbolic; one query per '
        'pair of execution paths of the two related calls. Non-trivial = not closed syntactically.')
EXPLANATION = 'bounded relational symbolic checking (two runs on shared variables), solver = z3'

P, P2, S, S2 = z3.Real('P'), z3.Real('P2'), z3.Real('S'), z3.Real('S2')


def prepare(tier):
    from engine import irsym
    irsym.prepare()


def tasks(tier, seed):
    n = 4 if tier == 'quick' else 6
    nc = 3 if tier == 'quick' else 4
    ts = []
    for r in range(1, n + 1):
        for c in range(1, n + 1):
            for law in ('identity', 'nonneg', 'symmetry', 'window', 'psi', 'penalty', 'w1-ed'):
                if law in ('identity', 'w1-ed') and r != c:
                    continue
                ts.append({'harness': 'py/' + law, 'law': law, 'engine': 'py', 'r': r, 'c': c, 'tier': tier, 'seed': seed,
                           'est': r * c * (3 if law in ('symmetry', 'psi') else 1)})
            if r * c <= (4 if tier == 'quick' else 9):
                ts.append({'harness': 'py/max_step', 'law': 'max_step', 'engine': 'py', 'r': r, 'c': c, 'tier': tier,
                           'seed': seed, 'est': 4 ** (r * c) // 8 + 1})
            if r <= nc and c <= nc:
                for law in ('identity', 'symmetry', 'window', 'psi', 'penalty', 'w1-ed'):
                    if law in ('identity', 'w1-ed') and r != c:
                        continue
                    for ndim in (1, 2):
                        if ndim == 2 and (law not in ('identity', 'symmetry', 'window') or r * c > 6):
                            continue
                        ts.append({'harness': 'c/%s/%dd' % (law, ndim), 'law': law, 'engine': 'c', 'ndim': ndim, 'r': r,
                                   'c': c, 'tier': tier, 'seed': seed, 'est': 3 * r * c * ndim})
                    if law in ('identity', 'symmetry', 'window', 'psi'):      # the *_euclidean kernels (inner_dist = 1)
                        ts.append({'harness': 'c/%s/1d-abs' % law, 'law': law, 'engine': 'c', 'ndim': 1, 'inner': 'euclidean', 'r': r,
                                   'c': c, 'tier': tier, 'seed': seed, 'est': 3 * r * c})
    ts.sort(key=lambda t: -t['est'])
    return ts


def _psis(r, c, tier):
    out = [None, 1, (1, 0, 0, 0), (0, 1, 0, 0), (0, 0, 1, 0), (0, 0, 0, 1), (1, 0, 0, 1), (0, 1, 1, 0), (2, 1, 0, 1), (1, 2, 2, 0)]
    if tier == 'thorough':
        out += [2, (2, 2, 1, 1), (0, 2, 2, 0), (3, 0, 0, 1)]
    res = []
    for p in out:
        t = spec.norm_psi(p)
        if t[0] <= r and t[1] <= r and t[2] <= c and t[3] <= c and not spec.psi_degenerate(r, c, t):
            res.append(p)
    return res


def run_task(cfg):
    dtw, innerdistance, ed = dtwh.load('dtw', 'innerdistance', 'ed')
    law, eng, r, c, tier = cfg['law'], cfg['engine'], cfg['r'], cfg['c'], cfg['tier']
    stats = smt.Stats()
    st = {'cex': [], 'incon': 0, 'sample': None, 'trunc': False}
    irmod = None
    if eng == 'c':
        from engine import irsym
        irmod = irsym.module()
    ndim = cfg.get('ndim', 1)

    def mk_mode(rr, cc, prefix='d', shared=False):
        if eng == 'py' and law not in ('identity', 'w1-ed'):
            return dtwh.CostMode(rr, cc, prefix)
        return dtwh.SeriesMode(rr, cc, cfg.get('inner', 'squared euclidean'), ndim=ndim, shared=shared)

    def paths(mode, kw, assume, s1=None, s2=None):
        if eng == 'py':
            a1 = mode.s1 if s1 is None else s1
            a2 = mode.s2 if s2 is None else s2
            kk = dict(mode.kw(), **kw)
            if ndim > 1:
                kk['use_ndim'] = True
            gen = dtwh.py_paths(lambda: dtw.distance(a1, a2, **kk), mode, assume, stats)
        else:
            kk = dict(kw, inner_dist=mode.innername)
            gen = dtwh.c_paths(irmod, dtw, mode, kk, assume, stats)
        for facts, er, p in gen:
            yield facts, er, p

    def check(facts, neg, mode, syms, claim, opts, lemmas='unary'):
        meta = {'harness': cfg['harness'], 'law': law, 'engine': eng, 'ndim': ndim, 'r': r, 'c': c, 'claim': claim,
                'opts': jnum(opts), 'kind': mode.kind}
        cx = dtwh.claim(stats, facts, neg, mode, syms, meta, lemmas=lemmas)
        if cx == 'unknown':
            st['incon'] += 1
        elif cx is not None:
            st['cex'].append(cx)
        if st['sample'] is None:
            st['sample'] = {'harness': cfg['harness'], 'r': r, 'c': c, 'options': jnum(opts), 'query': claim + ' negated (unsat expected)'}

    wins = dtwh.windows(r, c)
    if eng == 'c':
        wins = [None, 1, 2, 3]
    for w in wins:
        for psi in _psis(r, c, tier):
            if eng == 'c' and psi not in (None, 1, (1, 0, 0, 1), (0, 1, 1, 0)):
                continue
            for pen in (False, True):
                base = {'window': w, 'psi': psi}
                if pen:
                    base['penalty'] = SReal(P)
                o = {'window': w, 'psi': psi, 'pen': pen}
                syms = {'penalty': P if pen else None}
                if law == 'identity':
                    mode = mk_mode(r, r, shared=True)
                    for facts, er, p in paths(mode, base, [P >= 0]):
                        if er is None:
                            check(facts, z3.BoolVal(True), mode, syms, 'distance(s, s) raises', o)
                        else:
                            check(facts, smt.er_neq(er, ER(smt.rv(0))), mode, syms, 'distance(s, s) = 0', o)
                elif law == 'nonneg':
                    mode = mk_mode(r, c)
                    for facts, er, p in paths(mode, base, mode.assume + [P >= 0]):
                        if er is not None and er.inf is not True:
                            check(facts, er.val < 0, mode, syms, 'distance >= 0', o)
                elif law == 'symmetry':
                    mode = mk_mode(r, c)
                    t = spec.norm_psi(psi)
                    psi_sw = None if psi is None else (t[2], t[3], t[0], t[1])
                    if eng == 'py':
                        m2 = dtwh.CostMode(c, r, 'unused')
                        dm = mode.dm

                        class InnerT:
                            @staticmethod
                            def inner_dist(x, y):
                                return SReal(dm[y][x])
                            result = staticmethod(lambda x: x)
                            inner_val = staticmethod(lambda x: x)
                        m2.inner = InnerT
                    else:
                        m2 = dtwh.SeriesMode(c, r, cfg.get('inner', 'squared euclidean'), ndim=ndim)
                        m2.a, m2.b = mode.b, mode.a
                        m2.s1, m2.s2 = mode.s2, mode.s1
                    extras = [None]
                    if (w in (None, 1)) and psi in (None, 1, (0, 1, 1, 0)) and \
                            ((eng == 'c' and r * c <= 3) or (eng == 'py' and r * c <= 2)):
                        extras += ['step', 'md']
                    elif eng == 'c' and ndim == 1 and r * c == 4 and w is None and psi == 1 and not pen:
                        extras += ['step']
                    for extra in extras:
                        bx = dict(base)
                        sy = dict(syms)
                        ox = dict(o, extra=extra)
                        if extra == 'step':
                            bx['max_step'] = SReal(S)
                            sy['max_step'] = S
                        elif extra == 'md':
                            bx['max_dist'] = SReal(S2)
                            sy['max_dist'] = S2
                        for f1, e1, p1 in paths(mode, bx, mode.assume + [P >= 0, S > 0, S2 > 0]):
                            b2 = dict(bx, psi=psi_sw)
                            for f2, e2, p2 in paths(m2, b2, f1):
                                if e1 is None or e2 is None:
                                    if eng == 'c':
                                        continue
                                    check(f2, z3.BoolVal(True), mode, sy, 'distance raises', ox)
                                else:
                                    check(f2, smt.er_neq(e1, e2), mode, sy, 'd(s1,s2,psi) = d(s2,s1,psi swapped)', ox,
                                          lemmas='pairwise' if extra else 'unary')
                elif law == 'window':
                    if w is None:
                        continue
                    mode = mk_mode(r, c)
                    for f1, e1, p1 in paths(mode, base, mode.assume + [P >= 0]):
                        for f2, e2, p2 in paths(mode, dict(base, window=w + 1), f1):
                            if e1 is None or e2 is None:
                                continue
                            check(f2, z3.Not(smt.er_le(e2, e1)), mode, syms, 'd(window+1) <= d(window)', o)
                elif law == 'psi':
                    mode = mk_mode(r, c)
                    t = spec.norm_psi(psi)
                    for k in range(4):
                        t2 = list(t)
                        t2[k] += 1
                        t2 = tuple(t2)
                        if t2[0] > r or t2[1] > r or t2[2] > c or t2[3] > c or spec.psi_degenerate(r, c, t2):
                            continue
                        if eng == 'c' and k not in (1, 2):
                            continue
                        for f1, e1, p1 in paths(mode, base, mode.assume + [P >= 0]):
                            for f2, e2, p2 in paths(mode, dict(base, psi=t2), f1):
                                if e1 is None or e2 is None:
                                    continue
                                check(f2, z3.Not(smt.er_le(e2, e1)), mode, syms, 'd(psi+1) <= d(psi)', dict(o, psi2=t2))
                elif law == 'penalty':
                    if not pen:
                        continue
                    mode = mk_mode(r, c)
                    for f1, e1, p1 in paths(mode, base, mode.assume + [P >= 0, P2 >= P]):
                        for f2, e2, p2 in paths(mode, dict(base, penalty=SReal(P2)), f1):
                            if e1 is None or e2 is None:
                                continue
                            check(f2, z3.Not(smt.er_le(e1, e2)), mode, {'penalty': P, 'penalty2': P2},
                                  'p <= p\' => d(p) <= d(p\')', o, lemmas='pairwise')
                elif law == 'max_step':
                    if psi not in (None, 1) or (w not in (None, 1, 2)):
                        continue
                    mode = mk_mode(r, c)
                    b1 = dict(base, max_step=SReal(S))
                    for f1, e1, p1 in paths(mode, b1, mode.assume + [P >= 0, S > 0, S2 >= S]):
                        for f2, e2, p2 in paths(mode, dict(base, max_step=SReal(S2)), f1):
                            if e1 is None or e2 is None:
                                continue
                            check(f2, z3.Not(smt.er_le(e2, e1)), mode, {'penalty': P if pen else None, 'max_step': S, 'max_step2': S2},
                                  'm <= m\' => d(max_step=m\') <= d(max_step=m)', o, lemmas='pairwise')
                elif law == 'w1-ed':
                    if w != 1 or psi is not None or pen:
                        continue
                    mode = mk_mode(r, r)
                    for f1, e1, p1 in paths(mode, base, []):
                        if eng == 'py':
                            gen = dtwh.py_paths(lambda: ed.distance(mode.s1, mode.s2), mode, f1, stats)
                        else:
                            from engine import irsym

                            def edrun():
                                M = irsym.Machine(irmod)
                                a = M.new_doubles('s1', dtwh.flat_terms(mode.a))
                                b = M.new_doubles('s2', dtwh.flat_terms(mode.b))
                                if ndim == 1:
                                    return M.run('euclidean_distance', [a, r, b, r])
                                return M.run('euclidean_distance_ndim', [a, r, b, r, ndim])
                            gen = dtwh.py_paths(edrun, mode, f1, stats)
                        for f2, e2, p2 in gen:
                            if e1 is None or e2 is None:
                                check(f2, z3.BoolVal(True), mode, {}, 'raises', o)
                            else:
                                check(f2, smt.er_neq(e1, e2), mode, {}, 'window=1, equal lengths => DTW = Euclidean distance', o)
    return {'stats': stats.as_dict(), 'cex': st['cex'], 'inconclusive': st['incon'], 'sample': st['sample'],
            'truncated': st['trunc']}


# --------------------------------------------------------------------------------------------------
def _dist(cex, inp, r, c, s1, s2, dm, kw, transpose=False):
    from dtaidistance import dtw
    import numpy as np
    if cex['engine'] == 'py':
        if cex['kind'] == 'cost':
            d = dm if not transpose else [list(x) for x in zip(*dm)]
            return dtw.distance(list(range(len(d))), list(range(len(d[0]))), inner_dist=dtwh.conc_inner(d), **kw)
        a, b = (s1, s2) if not transpose else (s2, s1)
        if cex.get('ndim', 1) > 1:
            return dtw.distance(np.array(a), np.array(b), use_ndim=True, **kw)
        return dtw.distance(a, b, **kw)
    from engine import native
    a, b = (s1, s2) if not transpose else (s2, s1)
    cs = dtwh.c_settings(dtw, **dict(kw, inner_dist='squared euclidean'))
    return native.distance(a, b, cs, ndim=cex.get('ndim', 1))


def replay(cex):
    inp = unj(cex['inputs'])
    o = unj(cex['opts'])
    r, c = cex['r'], cex['c']

    def psi_of(p):
        if isinstance(p, list):
            return tuple(int(x) for x in p)
        return None if p is None else int(p)
    kw = {'window': None if o.get('window') is None else int(o['window']), 'psi': psi_of(o.get('psi'))}
    if o.get('pen'):
        kw['penalty'] = float(inp['penalty'])
    dm = dtwh.fl(inp.get('dm')) if 'dm' in inp else None
    s1, s2 = dtwh.fl(inp.get('s1')), dtwh.fl(inp.get('s2'))
    law = cex['law']
    claim = cex['claim']
    try:
        if 'raises' in claim:
            try:
                _dist(cex, inp, r, c, s1, s2, dm, kw)
                return {'reproduced': False, 'observed': 'no exception'}
            except Exception as e:
                return {'reproduced': True, 'observed': 'raised %r' % (e,), 'expected': 'a distance'}
        d1 = _dist(cex, inp, r, c, s1, s2, dm, kw)
        if law == 'identity':
            return {'reproduced': not spec.close(d1, 0.0, abs_=1e-9), 'observed': d1, 'expected': 0.0}
        if law == 'nonneg':
            return {'reproduced': d1 < 0, 'observed': d1, 'expected': '>= 0'}
        if law == 'symmetry':
            if o.get('extra') == 'step':
                kw['max_step'] = float(inp['max_step'])
            elif o.get('extra') == 'md':
                kw['max_dist'] = float(inp['max_dist'])
            d1 = _dist(cex, inp, r, c, s1, s2, dm, kw)
            t = spec.norm_psi(kw['psi'])
            kw2 = dict(kw, psi=None if kw['psi'] is None else (t[2], t[3], t[0], t[1]))
            d2 = _dist(cex, inp, r, c, s1, s2, dm, kw2, transpose=True)
            return {'reproduced': not spec.close(d1, d2), 'observed': [d1, d2], 'expected': 'equal'}
        if law == 'window':
            d2 = _dist(cex, inp, r, c, s1, s2, dm, dict(kw, window=kw['window'] + 1))
            return {'reproduced': d2 > d1 * (1 + 1e-9) + 1e-12, 'observed': [d1, d2], 'expected': 'd(w+1) <= d(w)'}
        if law == 'psi':
            d2 = _dist(cex, inp, r, c, s1, s2, dm, dict(kw, psi=psi_of(o['psi2'])))
            return {'reproduced': d2 > d1 * (1 + 1e-9) + 1e-12, 'observed': [d1, d2], 'expected': 'd(psi+1) <= d(psi)'}
        if law == 'penalty':
            d2 = _dist(cex, inp, r, c, s1, s2, dm, dict(kw, penalty=float(inp['penalty2'])))
            return {'reproduced': d1 > d2 * (1 + 1e-9) + 1e-12, 'observed': [d1, d2], 'expected': 'd(p) <= d(p2)'}
        if law == 'max_step':
            d1 = _dist(cex, inp, r, c, s1, s2, dm, dict(kw, max_step=float(inp['max_step'])))
            d2 = _dist(cex, inp, r, c, s1, s2, dm, dict(kw, max_step=float(inp['max_step2'])))
            return {'reproduced': d2 > d1 * (1 + 1e-9) + 1e-12, 'observed': [d1, d2], 'expected': 'd(m2) <= d(m)'}
        if law == 'w1-ed':
            from dtaidistance import ed
            import numpy as np
            if cex['engine'] == 'py':
                e = ed.distance(s1, s2)
            else:
                from engine import native
                L = native.lib()
                a, b = native.Fenced(native.flat(s1)), native.Fenced(native.flat(s2))
                nd = cex.get('ndim', 1)
                e = L.euclidean_distance(a.ptr, r, b.ptr, r) if nd == 1 else L.euclidean_distance_ndim(a.ptr, r, b.ptr, r, nd)
            return {'reproduced': not spec.close(d1, e), 'observed': [d1, e], 'expected': 'equal'}
    except Exception as e:
        return {'reproduced': True, 'observed': 'raised %r' % (e,), 'expected': 'a distance'}
    return {'reproduced': False, 'error': 'unknown law'}
