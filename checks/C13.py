"""C13 — the subsequence-alignment matching function is the best DTW over all start points; matches are consistent."""
import itertools
import math
from fractions import Fraction

import z3

from engine import smt, pysym, spec, dtwh
from engine.pysym import SReal, Explorer
from engine.smt import ER
from engine.runner import jnum, unj, active_regions

ID = 'C13'
ENGINE = 'PYSYM + IRSYM'
TECHNIQUE = 'symbolic execution of SubsequenceAlignment (align, matching function, best_match, k-best generator incl. repeated / interleaved iteration) on symbolic query and series; claims decided by z3 against the min-over-start-points DTW oracle; the C matrix (psi = (0,0,len,len)) is compared cell-wise through IRSYM'
BUDGET = {'quick': 420, 'thorough': 3000}
SOURCES = ['src/dtaidistance/subsequence/subsequencealignment.py', 'src/dtaidistance/dtw.py', 'src/DTAIDistanceC/DTAIDistanceC/dd_dtw.c']
FUNCTIONS = ['SubsequenceAlignment.__init__/align/_compute_matching/best_match/kbest_matches/_best_matches', 'SAMatch.value/distance/segment/path',
             'matching_function_bestpath/startpoint/endpoint', 'dtw.warping_paths, dtw.best_path (penalty in internal representation)',
             'dd_dtw.c dtw_warping_paths with psi=(0,0,len,len) (no window: the compact matrix is the full matrix)']
BOUNDS = {'quick': {'|query|': '1..2', '|series|': '1..4', 'penalty': 'symbolic >= 0', 'k': '2, None', 'overlap': '0,1', 'minlength': '1,2', 'maxlength': 'None,2'},
          'thorough': {'|query|': '1..3', '|series|': '1..5', 'penalty': 'symbolic >= 0', 'k-best': '|query|*|series| <= 8; k 1..3, None, overlap 0..2, minlength 1..3, maxlength None,2,3 (quick option grid for |query|+|series| >= 6)'}}
OUTSIDE = ['best_matches_knee (EWMA heuristic), max_rangefactor', 'multivariate series', 'the Cython glue of the C engine', 'floating point rounding']
ASSUMPTIONS = ['np.ceil(max + 1) (the "used" marker) modelled as any value in [max+1, max+2)', 'oracle: min over start points of spec_dtw(query, series[b..e])',
               'SQ/SQRT abstractions with pairwise lemmas']
RULE = ('configuration = (|query|, |series|, harness, k-best options, iteration pattern); values and penalty symbolic; one query per claim '
        'and execution path (arg-min and back-tracking decisions fork).')
EXPLANATION = 'bounded symbolic model checking of the subsequence alignment, solver = z3'

P = z3.Real('P')
CEIL = z3.Function('CEIL', z3.RealSort(), z3.RealSort())


def prepare(tier):
    from engine import irsym
    irsym.prepare()


def tasks(tier, seed):
    qmax, smax_ = (2, 4) if tier == 'quick' else (3, 5)
    ts = []
    for ql in range(1, qmax + 1):
        for sl in range(1, smax_ + 1):
            ts.append({'harness': 'matching', 'ql': ql, 'sl': sl, 'est': ql * sl * 3})
            ts.append({'harness': 'c-matrix', 'ql': ql, 'sl': sl, 'est': ql * sl * 3})
            if ql * sl <= (8 if tier == 'quick' else 12):
                ts.append({'harness': 'best', 'ql': ql, 'sl': sl, 'est': 3 ** (ql + sl)})
            if ql * sl <= (6 if tier == 'quick' else 8) and sl >= 2:
                small = tier == 'quick' or ql + sl >= 6        # the largest thorough sizes use the quick option grid
                overlaps = (0, 1) if small else (0, 1, 2)
                mins = (1, 2) if small else (1, 2, 3)
                maxs = (None, 2) if small else (None, 2, 3)
                for ov in overlaps:
                    for mn in mins:
                        for mx in maxs:
                            for k in ((2, None) if small else (1, 2, 3, None)):
                                ts.append({'harness': 'kbest', 'ql': ql, 'sl': sl, 'k': k, 'overlap': ov, 'minlength': mn, 'maxlength': mx,
                                           'est': 4 ** (ql + sl)})
    for t in ts:
        t['tier'], t['seed'] = tier, seed
    ts.sort(key=lambda t: -t['est'])
    return ts


def _setup(ql, sl):
    qv = [z3.Real('q%d' % i) for i in range(ql)]
    sv = [z3.Real('s%d' % i) for i in range(sl)]
    D = [[pysym.square_term(a - b) for b in sv] for a in qv]
    return qv, sv, D


def oracle_matching(D, ql, sl, pen):
    """E[e] = min over b <= e of DTW(query, series[b..e]) in the internal representation"""
    out = []
    for e in range(sl):
        cands = []
        for b in range(e + 1):
            sub = [[D[i][j] for j in range(b, e + 1)] for i in range(ql)]
            cands.append(spec.spec_dtw(sub, ql, e - b + 1, None, pen, None))
        out.append(smt.er_min(cands))
    return out


def _install_ceil(sub):
    np = sub.np

    def sceil(x):
        if isinstance(x, SReal):
            v = CEIL(x.t)
            pysym.CUR.side_fact(z3.And(v >= x.t, v < x.t + 1))
            return SReal(v)
        return pysym._np().ceil(x)
    np.ceil = sceil


def run_task(cfg):
    dtw, innerdistance, ed = dtwh.load('dtw', 'innerdistance', 'ed')
    sub = dtwh.load('subsequence.subsequencealignment')
    _install_ceil(sub)
    np = pysym._np()
    ql, sl, h = cfg['ql'], cfg['sl'], cfg['harness']
    stats = smt.Stats()
    cexs, incon, sample = [], 0, None
    qv, sv, D = _setup(ql, sl)
    pen = pysym.square_term(P)
    assume = [P >= 0]
    syms = {'P': P}
    for v in qv + sv:
        syms[str(v)] = v
    meta = {'harness': h, 'ql': ql, 'sl': sl, 'k': cfg.get('k'), 'overlap': cfg.get('overlap'), 'minlength': cfg.get('minlength'),
            'maxlength': cfg.get('maxlength')}
    E = oracle_matching(D, ql, sl, pen)
    query = pysym.objarray([SReal(v) for v in qv])
    series = pysym.objarray([SReal(v) for v in sv])

    def check(facts, neg, claim, extra=None):
        nonlocal incon
        m = dict(meta, claim=claim)
        if extra:
            m.update(extra)
        cx = dtwh.claim(stats, facts, neg, None, syms, m, lemmas='pairwise', refine=False)
        if cx == 'unknown':
            incon += 1
        elif cx is not None:
            cx['kind'] = 'series'
            cexs.append(cx)

    def internal(v):
        """matching value v (= sqrt(x)/|q|) -> x"""
        t = v.t if isinstance(v, SReal) else smt.rv(v)
        t = z3.simplify(t * ql)
        if z3.is_app(t) and t.decl().name() == 'SQRT':
            return t.arg(0)
        return pysym.square_term(t)

    if h == 'c-matrix':
        from engine import irsym, ckern
        irmod = irsym.module()
        mode = dtwh.SeriesMode(ql, sl, 'squared euclidean')
        mode.a, mode.b = qv, sv

        def run():
            cs = dtwh.c_settings(dtw, penalty=SReal(P), psi=[0, 0, sl, sl], inner_dist='squared euclidean')
            w = ckern.warping_paths(irmod, mode, cs, keep_int_repr=True, psi_neg=False, fill=float('inf'))
            return ckern.full_matrix(w)
        ex = Explorer(assume, max_paths=500, stats=stats)
        for p in ex.explore(run):
            if p.exc is not None:
                if isinstance(p.exc, irsym.Violation):
                    check(assume + p.facts(), z3.BoolVal(True), 'C warping-paths kernel stays in its buffers for psi=(0,0,len,len) (%s)' % p.exc.kind)
                    continue
                raise p.exc
            m = p.result
            bad = []
            for e in range(sl):
                v = m[ql][e + 1]
                got = ER.infinity() if pysym.is_inf(v) else ER(v if isinstance(v, z3.ExprRef) else smt.rv(v))
                bad.append(smt.er_neq(got, E[e]))
            check(assume + p.facts(), z3.Or(*bad), 'C matrix last row (psi=(0,0,len,len)) equals the best DTW over all start points')
        sample = {'harness': h, 'ql': ql, 'sl': sl}
        return {'stats': stats.as_dict(), 'cex': cexs, 'inconclusive': incon + ex.inconclusive_paths, 'sample': sample}

    def valid_sub_path(path, e):
        if not path:
            return 'empty path'
        if path[0][0] != 0:
            return 'path does not start in the first query element'
        if path[-1] != (ql - 1, e):
            return 'path does not end at (last query element, %d)' % e
        for (a, b), (c, d) in zip(path, path[1:]):
            if (c - a, d - b) not in ((1, 1), (1, 0), (0, 1)):
                return 'illegal step'
        return None

    def run():
        sa = sub.SubsequenceAlignment(query, series, penalty=SReal(P))
        sa.align()
        mf = [x for x in sa.matching_function()]
        out = {'mf': mf}
        if h == 'best':
            m = sa.best_match()
            out['best'] = (int(m.idx), [(int(a), int(b)) for a, b in m.path], [int(x) for x in m.segment], m.value, m.distance)
        if h == 'kbest':
            kw = dict(k=cfg['k'], overlap=cfg['overlap'], minlength=cfg['minlength'], maxlength=cfg['maxlength'])

            def collect(it):
                return [(int(m.idx), [int(x) for x in m.segment], m.value) for m in it]
            first = collect(sa.kbest_matches(**kw))
            second = collect(sa.kbest_matches(**kw))           # iterate again on the same object
            g1, g2 = sa.kbest_matches(**kw), sa.kbest_matches(**kw)    # interleaved
            inter1, inter2 = [], []
            while True:
                a = next(g1, None)
                b = next(g2, None)
                if a is None and b is None:
                    break
                if a is not None:
                    inter1.append((int(a.idx), [int(x) for x in a.segment], a.value))
                if b is not None:
                    inter2.append((int(b.idx), [int(x) for x in b.segment], b.value))
            out['kbest'] = (first, second, inter1, inter2)
        return out
    ex = Explorer(assume, max_paths=4000, stats=stats, pairwise=(h != 'matching'))
    for p in ex.explore(run):
        facts = assume + p.facts()
        if p.exc is not None:
            if isinstance(p.exc, (pysym.Realised, NotImplementedError)):
                incon += 1
                continue
            check(facts, z3.BoolVal(True), '%s raises %s: %s' % (h, type(p.exc).__name__, str(p.exc)[:80]))
            continue
        out = p.result
        mf = out['mf']
        if h == 'matching':
            bad = [z3.BoolVal(len(mf) != sl)]
            for e in range(min(sl, len(mf))):
                v = mf[e]
                got = ER.infinity() if pysym.is_inf(v) else ER(internal(v))
                bad.append(smt.er_neq(got, E[e]))
            check(facts, z3.Or(*bad), 'matching[e] * |query| = best penalised DTW(query, series[b..e]) over all start points b <= e')
        elif h == 'best':
            idx, path, seg, value, dist = out['best']
            why = valid_sub_path(path, idx)
            if why:
                check(facts, z3.BoolVal(True), 'best match path is a valid warping path ending at e (%s)' % why, {'e': idx})
            else:
                cost = spec.path_cost(path, D, pen)
                check(facts, z3.Or(cost != internal(value), z3.Not(smt.er_le(ER(internal(value)), E[idx])), smt.er_neq(ER(internal(value)), E[idx])),
                      'best match: cost along the reported path = value (and value = matching-function minimum)', {'e': idx})
                bads = [z3.BoolVal(seg != [path[0][1], idx])]
                bads += [z3.Not(smt.er_le(ER(internal(value)), ER(internal(mf[e])))) for e in range(sl) if not pysym.is_inf(mf[e])]
                check(facts, z3.Or(*bads), 'best match: segment = [path start, e] and its value is the smallest matching value', {'e': idx})
        elif h == 'kbest':
            first, second, inter1, inter2 = out['kbest']
            k, ov, mn, mx = cfg['k'], cfg['overlap'], cfg['minlength'], cfg['maxlength']
            bads = []
            struct = None
            ends = [m[0] for m in first]
            if len(set(ends)) != len(ends):
                struct = 'end points are not distinct'
            if k is not None and len(first) > k:
                struct = 'more than k matches'
            for (e, seg, v) in first:
                ln = seg[1] - seg[0] + 1
                if seg[1] != e or seg[0] > seg[1] or (mn is not None and ln < mn) or (mx is not None and ln > mx):
                    struct = 'segment %r of match ending at %d violates the length limits' % (seg, e)
            if ov == 0:
                for (e1, s1_, _), (e2, s2_, _) in itertools.combinations(first, 2):
                    lo, hi = max(s1_[0], s2_[0]), min(s1_[1], s2_[1])
                    if hi - lo + 1 > 1:
                        struct = 'segments %r and %r overlap in more than one sample' % (s1_, s2_)
            if [(a, b) for a, b, _ in first] != [(a, b) for a, b, _ in second] or \
                    [(a, b) for a, b, _ in first] != [(a, b) for a, b, _ in inter1] or [(a, b) for a, b, _ in first] != [(a, b) for a, b, _ in inter2]:
                struct = 'repeated / interleaved iteration differs from the first iteration'
                if __import__('os').environ.get('C13_DEBUG'):
                    print('DBG', first, second, inter1, inter2)
            if struct:
                check(facts, z3.BoolVal(True), 'k-best iterator: ' + struct)
            else:
                for (_, _, va), (_, _, vb) in zip(first, first[1:]):
                    bads.append(internal(va) > internal(vb))
                for (e, _, v) in first:
                    bads.append(smt.er_neq(ER(internal(v)), E[e]))
                if bads:
                    check(facts, z3.Or(*bads), 'k-best iterator yields values in non-decreasing order, each the matching value of its end point')
        if sample is None:
            sample = {'harness': h, 'ql': ql, 'sl': sl, 'options': {k_: cfg.get(k_) for k_ in ('k', 'overlap', 'minlength', 'maxlength')},
                      'matching_terms': [str(x)[:60] for x in mf][:2]}
    incon += ex.inconclusive_paths
    return {'stats': stats.as_dict(), 'cex': cexs, 'inconclusive': incon, 'sample': sample, 'truncated': ex.truncated}


# --------------------------------------------------------------------------------------------------
def replay(cex):
    from dtaidistance.subsequence.subsequencealignment import SubsequenceAlignment
    from dtaidistance import dtw
    import numpy as np
    inp = unj(cex['inputs'])
    ql, sl, h = cex['ql'], cex['sl'], cex['harness']
    q = np.array([float(inp['q%d' % i]) for i in range(ql)])
    s = np.array([float(inp['s%d' % i]) for i in range(sl)])
    pen = float(inp['P'])
    D = dtwh.conc_D('series', 'squared euclidean', {'s1': q.tolist(), 's2': s.tolist()})
    penint = Fraction(pen) ** 2
    E = []
    for e in range(sl):
        E.append(min(spec.conc_dtw([[D[i][j] for j in range(b, e + 1)] for i in range(ql)], ql, e - b + 1, None, penint, None) for b in range(e + 1)))
    want = [math.sqrt(x) / ql for x in E]
    claim = cex['claim']
    try:
        if h == 'c-matrix':
            from engine import native
            import ctypes
            L = native.lib()
            cs = dtwh.c_settings(dtw, penalty=pen, psi=[0, 0, sl, sl], inner_dist='squared euclidean')
            st = native.settings(cs)
            length = L.dtw_settings_wps_length(ql, sl, ctypes.byref(st))
            width = L.dtw_settings_wps_width(ql, sl, ctypes.byref(st))
            buf = native.Fenced(n=length, fill=float('inf'))
            a, b = native.Fenced(q.tolist()), native.Fenced(s.tolist())
            L.dtw_warping_paths(buf.ptr, a.ptr, ql, b.ptr, sl, True, True, False, ctypes.byref(st))
            v = buf.values()
            last = v[ql * width + 1: ql * width + 1 + sl]
            ok = width == sl + 1 and all(spec.close(x, float(y)) for x, y in zip(last, E)) and buf.intact()
            return {'reproduced': not ok, 'observed': last, 'expected': [float(x) for x in E]}
        sa = SubsequenceAlignment(q, s, penalty=pen)
        sa.align()
        mf = list(sa.matching_function())
        if h == 'matching':
            ok = len(mf) == sl and all(spec.close(a, b) for a, b in zip(mf, want))
            return {'reproduced': not ok, 'observed': [float(x) for x in mf], 'expected': want}
        if h == 'best':
            m = sa.best_match()
            path = [(int(a), int(b)) for a, b in m.path]
            e = int(m.idx)
            okp = path and path[0][0] == 0 and path[-1] == (ql - 1, e) and all((c - a, d - b) in ((1, 1), (1, 0), (0, 1)) for (a, b), (c, d) in zip(path, path[1:]))
            if not okp:
                return {'reproduced': True, 'observed': {'path': path, 'e': e}, 'expected': 'valid path'}
            cost = float(spec.path_cost(path, D, penint))
            val = (float(m.value) * ql) ** 2
            ok = spec.close(cost, val) and spec.close(float(m.value), min(want)) and list(map(int, m.segment)) == [path[0][1], e]
            return {'reproduced': not ok, 'observed': {'path': path, 'cost': cost, 'value^2': val, 'segment': list(map(int, m.segment))}, 'expected': {'min matching': min(want)}}
        if h == 'kbest':
            kw = dict(k=cex['k'], overlap=cex['overlap'], minlength=cex['minlength'], maxlength=cex['maxlength'])
            first = [(int(m.idx), list(map(int, m.segment)), float(m.value)) for m in sa.kbest_matches(**kw)]
            second = [(int(m.idx), list(map(int, m.segment)), float(m.value)) for m in sa.kbest_matches(**kw)]
            fresh = SubsequenceAlignment(q, s, penalty=pen)
            fresh.align()
            third = [(int(m.idx), list(map(int, m.segment)), float(m.value)) for m in fresh.kbest_matches(**kw)]
            bad = None
            ends = [m[0] for m in first]
            if len(set(ends)) != len(ends):
                bad = 'duplicate end points'
            if cex['k'] is not None and len(first) > cex['k']:
                bad = 'more than k'
            for (e, seg, v) in first:
                ln = seg[1] - seg[0] + 1
                if seg[1] != e or ln < (cex['minlength'] or 0) or (cex['maxlength'] is not None and ln > cex['maxlength']):
                    bad = 'length limits'
                if not spec.close(v, want[e]):
                    bad = 'value of match ending at %d' % e
            if cex['overlap'] == 0:
                for (e1, a, _), (e2, b, _) in itertools.combinations(first, 2):
                    if min(a[1], b[1]) - max(a[0], b[0]) + 1 > 1:
                        bad = 'overlap'
            if any(x > y * (1 + 1e-9) + 1e-12 for (_, _, x), (_, _, y) in zip(first, first[1:])):
                bad = 'order'
            if [(a, b) for a, b, _ in first] != [(a, b) for a, b, _ in second] or [(a, b) for a, b, _ in first] != [(a, b) for a, b, _ in third]:
                bad = 'history dependence'
            return {'reproduced': bad is not None, 'observed': {'first': first, 'second': second, 'fresh': third, 'why': bad}, 'expected': {'matching': want}}
    except Exception as ex_:
        return {'reproduced': 'raises' in claim, 'observed': 'raised %r' % (ex_,)}
    return {'reproduced': False, 'error': 'unknown harness'}
