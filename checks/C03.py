"""C03 — early abandoning (max_dist, use_pruning) never changes a result."""
import math
import random
from fractions import Fraction

import z3

from engine import smt, pysym, spec, dtwh
from engine.pysym import SReal, Explorer
from engine.smt import ER, INF
from engine.runner import jnum, unj, active_regions

ID = 'C03'
ENGINE = 'PYSYM + IRSYM'
TECHNIQUE = 'symbolic execution of the real Python / C (LLVM IR) kernels with a symbolic threshold; SMT queries against the unbounded oracle; QF_FP query for the sqrt/square round trip (z3)'
BUDGET = {'quick': 420, 'thorough': 1800}
SOURCES = ['src/dtaidistance/dtw.py', 'src/dtaidistance/ed.py', 'src/dtaidistance/innerdistance.py',
           'src/DTAIDistanceC/DTAIDistanceC/dd_dtw.c', 'src/DTAIDistanceC/DTAIDistanceC/dd_ed.c']
FUNCTIONS = ['dtw.distance (max_dist, use_pruning)', 'dtw.warping_paths (max_dist, use_pruning: returned distance)', 'dd_dtw.c dtw_warping_paths(_ndim)(_euclidean) with use_pruning (returned distance)',
             'DTWSettings.set_max_dist', 'ed.distance', 'dd_dtw.c dtw_distance, dtw_distance_euclidean (max_dist, use_pruning)',
             'dd_dtw.c ub_euclidean*', 'dd_ed.c euclidean_distance*']
BOUNDS = {'quick': {'r,c': '1..3 (3x4 / 4x3 for distance in cost mode; 3x4, 4x3, 4x4 with window 1 for use_pruning in the C matrix kernel)', 'window': 'None,1,2,3', 'psi': 'None, 1, (1,0,0,1), (0,1,0,1)',
                    'penalty': 'None | symbolic', 'threshold': 'symbolic M > 0'},
          'thorough': {'r,c': '1..4', 'window': 'all', 'psi': 'None, 1, (1,0,0,1), (0,1,0,1), (0,1,1,0)', 'penalty': 'None | symbolic',
                       'threshold': 'symbolic M > 0'}}
OUTSIDE = ['user thresholds within a rounding width of the true distance (excluded by the property)', 'sizes above the bound',
           'distance matrices (entries are single-pair calls: C06 ties them to the pair routine)']
ASSUMPTIONS = ['unbounded distance = spec_dtw oracle (tied to the code by C01/C02)', 'reals; the sqrt->square round trip of the '
               'pruning bound is additionally explored in a relaxed model u*(1+eps), |eps|<=2^-51, and a relaxed-model counterexample '
               'is only reported after a QF_FP query produced doubles that replay on the real code']
RULE = ('configuration = (engine, routine, mode, r, c, window, penalty, psi, threshold kind); one query per execution path: '
        'finite => result = unbounded /\\ unbounded <= M; inf => not(unbounded < M); pruning => result = unpruned.')
EXPLANATION = 'bounded symbolic model checking with a symbolic threshold, solver = z3 (+ QF_FP side query)'

P, Mx = z3.Real('P'), z3.Real('M')


def _psis(r, c, tier):
    out = [None, 1, (1, 0, 0, 1), (0, 1, 0, 1)] + ([(0, 1, 1, 0)] if tier == 'thorough' else [])
    return [p for p in out if not spec.psi_degenerate(r, c, p) and
            all(v <= (r if i < 2 else c) for i, v in enumerate(spec.norm_psi(p)))]


def prepare(tier):
    from engine import irsym
    irsym.prepare()


def tasks(tier, seed):
    n = 3 if tier == 'quick' else 4
    ts = []
    for r in range(1, n + 1 + (1 if tier == 'quick' else 0)):
        for c in range(1, n + 1 + (1 if tier == 'quick' else 0)):
            small = r <= n and c <= n
            if not small and not (r * c <= 12):
                continue
            wins = [None, 1, 2, 3] if tier == 'quick' else dtwh.windows(r, c)
            wins = [w for w in wins if w is None or w <= max(r, c) + 1]
            for w in wins:
                ts.append({'harness': 'py/max_dist/cost', 'r': r, 'c': c, 'window': w, 'tier': tier, 'est': 3 ** min(r, c) * r * c})
                if small:
                    ts.append({'harness': 'py/wps-max_dist/cost', 'r': r, 'c': c, 'window': w, 'tier': tier, 'est': 3 ** min(r, c) * r * c})
                    ts.append({'harness': 'py/max_dist/sq', 'r': r, 'c': c, 'window': w, 'tier': tier, 'est': 2 * 3 ** min(r, c) * r * c})
                    ts.append({'harness': 'c/max_dist/sq', 'r': r, 'c': c, 'window': w, 'tier': tier, 'est': 4 * 3 ** min(r, c) * r * c})
                    ts.append({'harness': 'c/max_dist/abs', 'r': r, 'c': c, 'window': w, 'tier': tier, 'est': 4 * 3 ** min(r, c) * r * c})
                    for eng in ('py', 'c'):
                        for inner in ('sq', 'abs'):
                            ts.append({'harness': '%s/prune/%s' % (eng, inner), 'r': r, 'c': c, 'window': w, 'tier': tier,
                                       'est': 4 * 3 ** min(r, c) * r * c})
                            # the accumulated-cost matrix routines with use_pruning (returned distance)
                            ts.append({'harness': '%s/wps-prune/%s' % (eng, inner), 'r': r, 'c': c, 'window': w, 'tier': tier,
                                       'est': 4 * 3 ** min(r, c) * r * c})
    # narrow band on longer series: the shifted row regions of the compact C matrix kernel exist only here
    for r, c in ((3, 4), (4, 3), (4, 4)) + (((5, 4), (4, 5)) if tier == 'thorough' else ()):
        for inner in ('sq', 'abs'):
            ts.append({'harness': 'c/wps-prune/%s' % inner, 'r': r, 'c': c, 'window': 1, 'tier': tier, 'est': 4 * 3 ** min(r, c) * r * c})
    for eng in ('py', 'c'):
        for r in (2, 3):
            ts.append({'harness': eng + '/prune-rounding', 'r': r, 'c': r, 'window': None, 'tier': tier, 'est': 500})
    for t in ts:
        t['seed'] = seed
    ts.sort(key=lambda t: -t['est'])
    return ts


def run_task(cfg):
    h = cfg['harness']
    if h.endswith('prune-rounding'):
        return _rounding(cfg)
    dtw, innerdistance, ed = dtwh.load('dtw', 'innerdistance', 'ed')
    eng, what, kind = h.split('/')
    r, c, w, tier = cfg['r'], cfg['c'], cfg['window'], cfg['tier']
    stats = smt.Stats()
    cexs, incon, sample, trunc = [], 0, None, False
    irmod = None
    if eng == 'c':
        from engine import irsym
        irmod = irsym.module()
    innername = {'sq': 'squared euclidean', 'abs': 'euclidean'}.get(kind)
    for psi in _psis(r, c, tier):
        for pen in (False, True):
            if what in ('prune', 'wps-prune') and pen and r != c:
                continue     # Euclidean distance is not an upper bound: outside the property
            mode = dtwh.CostMode(r, c) if kind == 'cost' else dtwh.SeriesMode(r, c, innername)
            assume = list(mode.assume) + [P >= 0, Mx > 0]
            kw = {'window': w, 'psi': psi}
            if pen:
                kw['penalty'] = SReal(P)
            if what in ('prune', 'wps-prune'):
                kw['use_pruning'] = True
            else:
                kw['max_dist'] = SReal(Mx)
            if what == 'wps-prune' and psi is not None and (spec.norm_psi(psi)[1] or spec.norm_psi(psi)[3]):
                continue     # end-of-series relaxation in the matrix kernels: region of the known findings F04-c-psi-window / C04
            o = {'window': w, 'psi': psi, 'pen': pen, 'what': what}
            syms = {'penalty': P if pen else None, 'max_dist': Mx if what != 'prune' else None}
            meta = {'harness': h, 'engine': eng, 'what': what, 'kind': kind, 'r': r, 'c': c, 'opts': jnum(o)}
            unb = spec.spec_dtw(mode.D, r, c, w, mode.tr(P) if pen else 0, psi)
            thr = mode.tr(Mx)
            if eng == 'py':
                if what in ('wps-max_dist', 'wps-prune'):
                    def run():
                        res = dtw.warping_paths(mode.s1, mode.s2, **dict(mode.kw(), **kw))
                        return res if pysym.is_inf(res) else res[0]
                else:
                    def run():
                        return dtw.distance(mode.s1, mode.s2, **dict(mode.kw(), **kw))
                gen = dtwh.py_paths(run, mode, assume, stats, max_paths=8000)
            elif what == 'wps-prune':
                from engine import ckern

                def crun():
                    return ckern.warping_paths(irmod, mode, dtwh.c_settings(dtw, **dict(kw, inner_dist=innername))).d
                gen = dtwh.py_paths(crun, mode, assume, stats, max_paths=8000)
            else:
                gen = dtwh.c_paths(irmod, dtw, mode, dict(kw, inner_dist=innername), assume, stats, max_paths=8000)
            for facts, er, p in gen:
                if er is None:
                    if eng == 'c':
                        from engine import irsym
                        if isinstance(p.exc, irsym.Violation):
                            continue        # memory safety is C08's claim
                        raise p.exc
                    neg, cl = z3.BoolVal(True), 'raises %s on a valid input' % type(p.exc).__name__
                elif what == 'wps-prune':
                    neg, cl = smt.er_neq(er, unb), 'warping_paths(use_pruning) returns the distance obtained without pruning'
                elif what == 'prune':
                    neg, cl = smt.er_neq(er, unb), 'use_pruning returns the distance obtained without pruning'
                elif er.inf is True:
                    neg = z3.And(z3.Not(smt._b(unb.inf)), unb.val < thr)
                    cl = 'max_dist=m: infinity only if the unbounded distance is not below m'
                else:
                    neg = z3.Or(smt.er_neq(er, unb), unb.val > thr)
                    cl = 'max_dist=m: a finite result is the unbounded distance and does not exceed m'
                cx = dtwh.claim(stats, facts, neg, mode, syms, dict(meta, claim=cl),
                                lemmas='pairwise' if kind != 'cost' else 'unary')
                if cx == 'unknown':
                    incon += 1
                elif cx is not None:
                    cexs.append(cx)
                if sample is None and er is not None and er.inf is not True:
                    sample = {'harness': h, 'r': r, 'c': c, 'options': jnum(o), 'path_condition_size': len(p.pc),
                              'query': cl + '  -- negated, unsat expected'}
            g = dtwh.py_paths if eng == 'py' else dtwh.c_paths
            trunc = trunc or getattr(g, 'truncated', False)
            incon += getattr(g, 'inconclusive', 0)
    return {'stats': stats.as_dict(), 'cex': cexs, 'inconclusive': incon, 'sample': sample, 'truncated': trunc}


# --------------------------------------------------------------------------------------------------
def fp_roundtrip_witnesses(timeout_ms=15000):
    """doubles u (integer valued) with fl(fl(sqrt u)^2) < u, from QF_FP queries (one per value range)"""
    F = z3.Float64()
    rm = z3.RNE()
    out = []
    for lo, hi in ((2, 16), (16, 64), (64, 256), (256, 1024)):
        n = z3.BitVec('n', 16)
        u = z3.fpSignedToFP(rm, n, F)
        s = z3.Solver()
        s.set('timeout', timeout_ms)
        sq = z3.fpSqrt(rm, u)
        s.add(z3.fpLT(z3.fpMul(rm, sq, sq), u), n >= lo, n < hi)
        if s.check() == z3.sat:
            out.append(float(s.model().eval(n).as_long()))
    return out


def squares_decomposition(u, k):
    """u as a sum of exactly k squares of non-negative integers, or None"""
    u = int(u)

    def rec(rem, kk, lo):
        if kk == 0:
            return [] if rem == 0 else None
        x = math.isqrt(rem)
        while x >= 0:
            if kk == 1 and x * x != rem:
                return None
            res = rec(rem - x * x, kk - 1, 0)
            if res is not None:
                return [x] + res
            x -= 1
            if kk == 1:
                break
        return None
    return rec(u, k, 0)


def _rounding(cfg):
    """relaxed model of the sqrt->square round trip of the pruning bound; FP witness; concrete replay decides"""
    dtw, innerdistance, ed = dtwh.load('dtw', 'innerdistance', 'ed')
    eng = cfg['harness'].split('/')[0]
    r = c = cfg['r']
    stats = smt.Stats()
    cexs, incon = [], 0
    irmod = None
    if eng == 'c':
        from engine import irsym
        irmod = irsym.module()
    pysym.Mode.relax_roundtrip = True
    found = False
    try:
        mode = dtwh.SeriesMode(r, c, 'squared euclidean')
        kw = {'window': None, 'psi': None, 'use_pruning': True}
        unb = spec.spec_dtw(mode.D, r, c, None, 0, None)
        if eng == 'py':
            gen = dtwh.py_paths(lambda: dtw.distance(mode.s1, mode.s2, **dict(mode.kw(), **kw)), mode, [], stats)
        else:
            gen = dtwh.c_paths(irmod, dtw, mode, dict(kw, inner_dist='squared euclidean'), [], stats)
        for facts, er, p in gen:
            if er is None:
                continue
            res, m = smt.decide(stats, facts, smt.er_neq(er, unb), lemmas='unary')
            if res == 'sat':
                found = True
            elif res == 'unknown':
                incon += 1
    finally:
        pysym.Mode.relax_roundtrip = False
    sample = {'harness': cfg['harness'], 'r': r, 'c': c,
              'query': 'relaxed model: bound = ED^2 + delta, |delta| <= ED^2 * 2^-51; pruned result != unpruned (unsat expected)',
              'relaxed_model_counterexample': found}
    if found:
        # the relaxed model admits a difference: look for real doubles (QF_FP) in the exact witness family
        stats.queries += 1
        stats.nontrivial += 1
        us = fp_roundtrip_witnesses()
        made = 0
        for u in us:
            dec = squares_decomposition(u, c)
            if dec is None or made >= 2:
                continue
            made += 1
            cexs.append({'harness': cfg['harness'], 'engine': eng, 'what': 'prune', 'kind': 'sq', 'r': r, 'c': c,
                         'claim': 'use_pruning returns the distance obtained without pruning (DTW = Euclidean distance)',
                         'opts': {'window': None, 'psi': None, 'pen': False, 'what': 'prune'},
                         'inputs': {'s1': [0] * r, 's2': dec}, 'fp_witness_u': u, 'soft': True})
        if us:
            stats.sat += 1
        else:
            stats.unknown += 1
    return {'stats': stats.as_dict(), 'cex': cexs, 'inconclusive': incon, 'sample': sample}


# --------------------------------------------------------------------------------------------------
def replay(cex):
    from dtaidistance import dtw
    inp = unj(cex['inputs'])
    o = unj(cex['opts'])
    r, c = cex['r'], cex['c']
    kind, eng, what = cex['kind'], cex['engine'], cex['what']
    psi = o.get('psi')
    psi = tuple(int(x) for x in psi) if isinstance(psi, list) else (None if psi is None else int(psi))
    w = None if o.get('window') is None else int(o['window'])
    kw = {'window': w, 'psi': psi}
    pen = float(inp['penalty']) if o.get('pen') else None
    if pen is not None:
        kw['penalty'] = pen
    innername = {'sq': 'squared euclidean', 'abs': 'euclidean'}.get(kind)
    if kind == 'cost':
        dm = dtwh.fl(inp['dm'])
        s1, s2 = list(range(r)), list(range(c))
        base = dict(kw, inner_dist=dtwh.conc_inner(dm))
        D = dtwh.conc_D('cost', None, {'dm': dm})
    else:
        s1, s2 = dtwh.fl(inp['s1']), dtwh.fl(inp['s2'])
        base = dict(kw, inner_dist=innername)
        D = dtwh.conc_D('series', innername, {'s1': s1, 's2': s2})
    unb_int = spec.conc_dtw(D, r, c, w, dtwh.conc_tr(kind, innername, pen) or 0, psi)
    unb = dtwh.conc_result(kind, innername, unb_int)
    full = dict(base)
    if what in ('prune', 'wps-prune'):
        full['use_pruning'] = True
    else:
        m = float(inp['max_dist'])
        full['max_dist'] = m
    try:
        if eng == 'py':
            if what in ('wps-max_dist', 'wps-prune'):
                res = dtw.warping_paths(s1, s2, **full)
                got = res if isinstance(res, float) else res[0]
            else:
                got = dtw.distance(s1, s2, **full)
        else:
            from engine import native
            cs = dtwh.c_settings(dtw, **full)
            if what == 'wps-prune':
                import ctypes
                L = native.lib()
                st = native.settings(cs)
                length = L.dtw_settings_wps_length(r, c, ctypes.byref(st))
                buf, fa, fb = native.Fenced(n=length, fill=float('inf')), native.Fenced(s1), native.Fenced(s2)
                got = L.dtw_warping_paths(buf.ptr, fa.ptr, r, fb.ptr, c, True, False, True, ctypes.byref(st))
            else:
                got = native.distance(s1, s2, cs)
    except Exception as e:
        return {'reproduced': True, 'observed': 'raised %r' % (e,), 'expected': unb}
    got = float(got)
    if what in ('prune', 'wps-prune'):
        return {'reproduced': not spec.close(got, unb), 'observed': got, 'expected': unb}
    # threshold semantics, outside a rounding-width neighbourhood of the true distance
    if abs(unb - m) <= 1e-9 * max(1.0, abs(m)):
        return {'reproduced': False, 'observed': got, 'expected': 'threshold within rounding width: outside the claim'}
    if math.isinf(got):
        bad = unb < m
    else:
        bad = (not spec.close(got, unb)) or unb > m
    return {'reproduced': bad, 'observed': got, 'expected': {'unbounded': unb, 'max_dist': m}}
