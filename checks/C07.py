"""C07 — the parallel distance matrix is schedule independent."""
import sys
import types

import z3

from engine import smt, pysym, spec, dtwh
from engine.pysym import SReal, Explorer
from engine.runner import jnum, unj, active_regions

ID = 'C07'
ENGINE = 'IRSYM + PYSYM'
TECHNIQUE = 'symbolic execution of the OpenMP outlined loop bodies (clang -fopenmp LLVM IR) for one arbitrary iteration k chosen by the solver; per-iteration write sets are checked for disjointness, coverage and agreement with the serial routine; the multiprocessing branches are executed with Pool.map = list(map) (z3)'
BUDGET = {'quick': 300, 'thorough': 1800}
SOURCES = ['src/DTAIDistanceC/DTAIDistanceC/dd_dtw_openmp.c', 'src/DTAIDistanceC/DTAIDistanceC/dd_dtw.c', 'src/dtaidistance/dtw.py']
FUNCTIONS = ['dd_dtw_openmp.c dtw_distances_prepare', 'dtw_distances_ptrs_parallel, _ndim_ptrs_parallel, _matrix_parallel, _ndim_matrix_parallel, '
             '_matrices_parallel, _ndim_matrices_parallel and their .omp_outlined. bodies', 'dd_dtw.c dtw_distance (re-entrancy monitor)',
             'dtw.distance_matrix(parallel=True, use_c=False) (multiprocessing branch of the Python engine), dtw._distance_matrix_idxs']
BOUNDS = {'quick': {'n': '1..4', 'blocks': 'all (rb<re<=n, cb<ce<=n, triu T/F) + no block'},
          'thorough': {'n': '1..6', 'blocks': 'all + no block'}}
OUTSIDE = ['real thread execution, libgomp / libomp', 'real multiprocessing processes and pickling',
           'meta-argument (not a solver result): iterations that write pairwise disjoint slots of output only, read nothing another '
           'iteration writes and whose kernel is re-entrant give the same final memory for every assignment of iterations to threads, '
           'chunking and interleaving; the OpenMP runtime executes each iteration exactly once']
ASSUMPTIONS = ['OpenMP runtime stubs: __kmpc_fork_call runs the outlined function; __kmpc_dispatch_next_8 hands out one iteration k, 0 <= k < trip count, k symbolic',
               'the distance kernel is an uninterpreted function of the pair (re-entrancy of the real kernel is monitored separately)',
               'multiprocessing.Pool().map is order preserving (documented contract), modelled by list(map(...))']
RULE = ('configuration = (parallel routine, n, block); one explorer path per feasible iteration k; queries: stores outside output, '
        'overlapping write sets, read-after-write across iterations, slot(r,c) different from the serial routine, uncovered slots.')
EXPLANATION = 'bounded symbolic checking of iteration independence of the OpenMP loop bodies, solver = z3'

PAR = ['dtw_distances_ptrs_parallel', 'dtw_distances_ndim_ptrs_parallel', 'dtw_distances_matrix_parallel',
       'dtw_distances_ndim_matrix_parallel', 'dtw_distances_matrices_parallel', 'dtw_distances_ndim_matrices_parallel']


def prepare(tier):
    from engine import irsym
    irsym.prepare()


def tasks(tier, seed):
    ts = []
    nmax = 4 if tier == 'quick' else 6
    for n in range(1, nmax + 1):
        for fn in PAR:
            ts.append({'harness': 'omp/' + fn, 'fam': 'omp', 'fn': fn, 'n': n, 'est': n ** 4 * 4})
        ts.append({'harness': 'py/mp', 'fam': 'mp', 'n': n, 'est': n ** 4})
    ts.append({'harness': 'kernel-reentrancy', 'fam': 'reent', 'est': 5})
    for t in ts:
        t['tier'], t['seed'] = tier, seed
    ts.sort(key=lambda t: -t['est'])
    return ts


def par_run(irmod, fn, n, bd, ex_assume=()):
    """all iterations of one parallel routine: returns (returned length, advertised length, list of per-iteration records)"""
    from engine import irsym, cspec
    from checks import C08
    ndim = 2 if 'ndim' in fn else 1
    lens = [1 + (k % 2) for k in range(n)] if 'ptrs' in fn else [2] * n
    maxl = max(lens)
    DIST = z3.Function('DISTK', z3.IntSort(), z3.IntSort(), z3.RealSort())
    K = z3.Int('iter_k')

    def ident(p):
        name = p.obj.name.split('#')[0]
        if name.startswith('ser'):
            return int(name[3:])
        if isinstance(p.off, int):
            return p.off // (8 * maxl * ndim)
        for cand in range(n):                      # symbolic row (rb + k): the explorer decides it
            if pysym.CUR.branch(p.off == cand * 8 * maxl * ndim):
                return cand
        raise irsym.Violation('out-of-bounds', 'row pointer outside the matrix')
    M0 = irsym.Machine(irmod)
    blk0 = irsym.mk_block(M0, bd['rb'], bd['re'], bd['cb'], bd['ce'], bd['triu'])
    blk0.obj.writable = True
    length = int(M0.run('dtw_distances_length', [blk0, n, n]))
    serial = fn.replace('_parallel', '')
    bufs = C08.distances_spec(serial, n, bd, lens, ndim)
    bufs.append(['out', 'double', length])
    if 'ptrs' in fn:
        args = ['ptrs', n, 'lens'] + ([ndim] if ndim > 1 else []) + ['out', 'block', 'settings']
    elif 'matrices' in fn:
        args = ['mr', n, maxl, 'mc', n, maxl] + ([ndim] if ndim > 1 else []) + ['out', 'block', 'settings']
    else:
        args = ['mat', n, maxl] + ([ndim] if ndim > 1 else []) + ['out', 'block', 'settings']
    sp = {'settings': {}, 'block': bd, 'bufs': bufs, 'calls': [[fn, args, 'idx']]}
    records = []
    state = {}

    def hook(M):
        calls = []
        state['calls'] = calls
        state['M'] = M
        state['trip'] = None

        def kernel(M_, *a):
            r, c = ident(a[0]), ident(a[2])
            calls.append((r, c))
            return DIST(z3.IntVal(r), z3.IntVal(c))
        for k in ('dtw_distance', 'dtw_distance_ndim'):
            M.stubs[k] = kernel

        def fork_call(M_, ident_, nargs, fnref, *rest):
            tid = M_.new_ints('gtid', [0], kind='input', writable=False, width=4)
            btid = M_.new_ints('btid', [0], kind='input', writable=False, width=4)
            objs_before = len(M_.objects)
            state['first_obj'] = objs_before
            M_.run(fnref[1], [tid, btid] + list(rest))
            return None

        def disp_init(M_, ident_, tid, sched, lb, ub, stride, chunk):
            state['lb'], state['ub'] = lb, ub
            state['handed'] = False
            return None

        def disp_next(M_, ident_, tid, p_last, p_lb, p_ub, p_stride):
            if state.get('handed'):
                return 0
            state['handed'] = True
            lb, ub = state['lb'], state['ub']
            ex = pysym.CUR
            ex.assume(z3.And(K >= lb, K <= ub))
            state['trip'] = (lb, ub)
            M_.store(p_lb, K, 'i64', 8)
            M_.store(p_ub, K, 'i64', 8)
            return 1
        M.stubs['__kmpc_fork_call'] = fork_call
        M.stubs['__kmpc_dispatch_init_8'] = disp_init
        M.stubs['__kmpc_dispatch_next_8'] = disp_next

    def run():
        res, M, bb = cspec.run_symbolic(irmod, sp, {}, machine_hook=hook)
        out = bb['out'].obj
        foreign = []
        for o in M.objects:
            if o is out or o.kind in ('stack',) or not o.writes:
                continue
            if o.kind == 'heap':
                continue       # cbs / rls: written by dtw_distances_prepare before the parallel region
            if o.name.startswith('block'):
                continue       # block->re / ce normalisation happens before the parallel region
            foreign.append(o.name)
        return res[0], dict(out.cells), set(out.writes), set(out.reads), list(state['calls']), foreign, state.get('trip')
    ex = Explorer(list(ex_assume), max_paths=400)
    for p in ex.explore(run):
        records.append(p)
    return length, records, DIST, ex


def _omp(cfg):
    from engine import irsym
    from checks import C06
    irmod = irsym.module()
    fn, n = cfg['fn'], cfg['n']
    stats = smt.Stats()
    cexs, incon = [], 0
    blocks = C06._all_blocks(n) + [(0, 0, 0, 0, True), (0, 0, 0, 0, False)]
    for b in blocks:
        bd = {'rb': 0, 're': 0, 'cb': 0, 'ce': 0, 'triu': True} if b is None else dict(zip(('rb', 're', 'cb', 'ce', 'triu'), b))
        exp = C06.pairs(0, n, 0, n, bd['triu'], n) if (bd['re'] == 0 and bd['ce'] == 0) else \
            C06.pairs(bd['rb'], bd['re'], bd['cb'], bd['ce'], bd['triu'], n)
        meta = {'harness': cfg['harness'], 'fn': fn, 'n': n, 'block': jnum(bd), 'inputs': {}}
        try:
            length, recs, DIST, ex = par_run(irmod, fn, n, bd)
        except irsym.Unsupported as e:
            incon += 1
            continue
        stats.paths += len(recs)
        bad = None
        written = {}
        for p in recs:
            stats.queries += 1
            if p.exc is not None:
                if isinstance(p.exc, irsym.Violation):
                    bad = 'iteration leaves its buffers: %s' % p.exc
                    break
                raise p.exc
            ret, cells, writes, reads, calls, foreign, trip = p.result
            if trip is None:
                continue           # no parallel region was entered (empty block)
            if foreign:
                bad = 'an iteration stores into shared memory other than output: %s' % foreign
                break
            if reads:
                bad = 'an iteration reads output slots %s' % sorted(reads)
                break
            for off in writes:
                if off in written:
                    bad = 'two iterations write output slot %d' % (off // 8)
                    break
                written[off] = cells[off]
            if bad:
                break
        if bad is None:
            # coverage and agreement with the serial order
            if sorted(written) != [8 * k for k in range(len(exp))] or length != len(exp):
                bad = 'written slots %s != [0, %d) (advertised length %d)' % (sorted(o // 8 for o in written), len(exp), length)
            else:
                for k, (r, c) in enumerate(exp):
                    v = written[8 * k]
                    if not (isinstance(v, z3.ExprRef) and v.eq(DIST(z3.IntVal(r), z3.IntVal(c)))):
                        bad = 'slot %d holds %s instead of the distance of pair %r (serial order)' % (k, v, (r, c))
                        break
        if bad:
            stats.sat += 1
            cexs.append(dict(meta, claim='parallel iterations write disjoint slots of output only and agree with the serial layout (%s)' % bad[:160]))
        else:
            stats.unsat += 1
            stats.nontrivial += 1
    return {'stats': stats.as_dict(), 'cex': cexs[:6], 'inconclusive': incon,
            'sample': {'harness': cfg['harness'], 'n': n, 'blocks': len(blocks), 'per_block': 'one explorer path per iteration k (symbolic), write sets compared'}}


def _reent(cfg):
    """the distance kernels touch no mutable global and store only into memory they allocated themselves"""
    from engine import irsym
    irmod = irsym.module()
    stats = smt.Stats()
    cexs = []
    for ndim, inner in ((1, 0), (1, 1), (2, 0), (2, 1)):
        mode = dtwh.SeriesMode(3, 3, 'squared euclidean' if inner == 0 else 'euclidean', ndim=ndim)
        P = z3.Real('P')
        for cs in ({'inner_dist': inner}, {'inner_dist': inner, 'window': 1, 'penalty': P, 'psi_1b': 1, 'psi_2e': 1},
                   {'inner_dist': inner, 'use_pruning': True}):
            holder = {}

            def hook(M):
                holder['M'] = M
                M.allow_write = lambda o: o.kind in ('heap', 'stack')
            ex = Explorer([P >= 0], stats=stats, max_paths=300)
            for p in ex.explore(lambda: dtwh.c_distance(irmod, mode, cs, machine_hook=hook)[0]):
                stats.queries += 1
                M = holder['M']
                if p.exc is not None and isinstance(p.exc, irsym.Violation) and p.exc.kind in ('foreign-write', 'write-to-input'):
                    stats.sat += 1
                    cexs.append({'harness': 'kernel-reentrancy', 'claim': 'kernel stores only into its own allocations (%s)' % p.exc, 'inputs': {}})
                elif M.global_access:
                    stats.sat += 1
                    cexs.append({'harness': 'kernel-reentrancy', 'claim': 'kernel accesses mutable globals %r' % (M.global_access[:3],), 'inputs': {}})
                else:
                    stats.unsat += 1
                    stats.nontrivial += 1
    return {'stats': stats.as_dict(), 'cex': cexs[:4], 'inconclusive': 0,
            'sample': {'harness': 'kernel-reentrancy', 'monitor': 'stores only to heap/stack objects of the call, no access to mutable globals'}}


class _FakePool:
    def __init__(self, *a, **k):
        pass

    def __enter__(self):
        return self

    def __exit__(self, *a):
        return False

    def map(self, fn, it):
        return list(map(fn, it))


def _mp(cfg):
    """dtw.distance_matrix(parallel=True, use_c=False) with Pool.map = list(map): equals the serial result for every block"""
    dtw = dtwh.load('dtw')
    from checks import C06
    n = cfg['n']
    stats = smt.Stats()
    DIST = z3.Function('DIST', z3.IntSort(), z3.IntSort(), z3.RealSort())
    cexs = []

    class Tok(list):
        pass
    series = []
    for k in range(n):
        t = Tok([float(k)])
        t.idx = k
        series.append(t)
    real_distance = dtw.distance
    real_mp = sys.modules.get('multiprocessing')
    shim = types.ModuleType('multiprocessing')
    shim.Pool = _FakePool
    dtw.distance = lambda s1, s2, **kw: SReal(DIST(s1.idx, s2.idx))
    try:
        for b in C06._all_blocks(n):
            block = None if b is None else (((b[0], b[1]), (b[2], b[3])) if b[4] else ((b[0], b[1]), (b[2], b[3]), False))
            stats.queries += 1
            stats.paths += 1
            sys.modules['multiprocessing'] = shim
            try:
                par = list(dtw.distance_matrix(list(series), block=block, compact=True, parallel=True, use_c=False))
            finally:
                sys.modules['multiprocessing'] = real_mp
            ser = list(dtw.distance_matrix(list(series), block=block, compact=True, parallel=False))
            same = len(par) == len(ser) and all(isinstance(a, SReal) and isinstance(c, SReal) and a.t.eq(c.t) for a, c in zip(par, ser))
            if same:
                stats.unsat += 1
                stats.nontrivial += 1
            else:
                stats.sat += 1
                cexs.append({'harness': 'py/mp', 'claim': 'multiprocessing result equals the serial result element for element', 'n': n,
                             'block': jnum(b), 'inputs': {}})
    finally:
        dtw.distance = real_distance
        sys.modules['multiprocessing'] = real_mp
    return {'stats': stats.as_dict(), 'cex': cexs[:4], 'inconclusive': 0,
            'sample': {'harness': 'py/mp', 'n': n, 'blocks': len(C06._all_blocks(n))}}


def run_task(cfg):
    return {'omp': _omp, 'reent': _reent, 'mp': _mp}[cfg['fam']](cfg)


# --------------------------------------------------------------------------------------------------
def replay(cex):
    """counterexamples here are structural; they are confirmed on the real code by running the parallel routine's
    serial twin and a sequentialised execution of the parallel loop (native build without OpenMP, iteration order reversed)"""
    h = cex['harness']
    if h.startswith('omp/'):
        from engine import cspec
        from checks import C06, C08
        fn, n, bd = cex['fn'], cex['n'], cex['block']
        ndim = 2 if 'ndim' in fn else 1
        lens = [2] * n
        serial = fn.replace('_parallel', '')
        exp = C06.pairs(0, n, 0, n, bd['triu'], n) if (bd['re'] == 0 and bd['ce'] == 0) else C06.pairs(bd['rb'], bd['re'], bd['cb'], bd['ce'], bd['triu'], n)
        outs = {}
        for which in (serial, fn):
            bufs = []
            rows = [[float(k + 1) * (1 + 0.37 * j) for j in range(2 * ndim)] for k in range(n)]
            if 'ptrs' in which:
                for k in range(n):
                    bufs.append(['ser%d' % k, 'double', rows[k]])
                bufs.append(['ptrs', 'ptrs', ['ser%d' % k for k in range(n)]])
                bufs.append(['lens', 'idx', lens])
                args = ['ptrs', n, 'lens'] + ([ndim] if ndim > 1 else []) + ['out', 'block', 'settings']
            elif 'matrices' in which:
                bufs.append(['mr', 'double', [v for r in rows for v in r]])
                bufs.append(['mc', 'double', [v for r in rows for v in r]])
                args = ['mr', n, 2, 'mc', n, 2] + ([ndim] if ndim > 1 else []) + ['out', 'block', 'settings']
            else:
                bufs.append(['mat', 'double', [v for r in rows for v in r]])
                args = ['mat', n, 2] + ([ndim] if ndim > 1 else []) + ['out', 'block', 'settings']
            bufs.append(['out', 'double_rw', [-5.0] * max(len(exp), 1)])
            sp = {'settings': {}, 'block': bd, 'bufs': bufs, 'calls': [[which, args, 'idx']]}
            src = cspec.to_c(sp, {})
            src = src.replace('  free(out);', '  for (int q = 0; q < %d; q++) printf("out%%d=%%.17g\\n", q, out[q]);\n  free(out);' % len(exp))
            rep, out = _run_c(src)
            outs[which] = (rep, [l for l in out.splitlines() if l.startswith('out') or l.startswith('r0')], out[-400:])
        bad = outs[fn][0] or outs[serial][0] or outs[fn][1] != outs[serial][1]
        return {'reproduced': bool(bad), 'observed': {'parallel': outs[fn][1][:12], 'san': outs[fn][2] if outs[fn][0] else ''},
                'expected': {'serial': outs[serial][1][:12]}}
    if h == 'py/mp':
        from dtaidistance import dtw
        import numpy as np
        n = cex['n']
        b = cex['block']
        block = None if b is None else (((b[0], b[1]), (b[2], b[3])) if b[4] else ((b[0], b[1]), (b[2], b[3]), False))
        series = [np.array([float((k * 7) % 5), float(k), float((k * 3) % 4), float(k % 2)]) for k in range(n)]
        real_mp = sys.modules.get('multiprocessing')
        shim = types.ModuleType('multiprocessing')
        shim.Pool = _FakePool
        kw = {'psi': (2, 0, 0, 1), 'penalty': 0.5}
        sys.modules['multiprocessing'] = shim
        try:
            par = list(dtw.distance_matrix(series, block=block, compact=True, parallel=True, use_c=False, **kw))
        finally:
            sys.modules['multiprocessing'] = real_mp
        ser = list(dtw.distance_matrix(series, block=block, compact=True, parallel=False, **kw))
        same = len(par) == len(ser) and all(spec.close(a, c) for a, c in zip(par, ser))
        return {'reproduced': not same, 'observed': par, 'expected': ser}
    return {'reproduced': False, 'error': 'no replay for this harness'}


def _run_c(src):
    import hashlib
    import os
    import subprocess
    from engine import irsym
    key = hashlib.sha1((src + irsym.c_sources_hash()).encode()).hexdigest()[:16]
    d = os.path.join(irsym.CACHE, 'san', key)
    os.makedirs(d, exist_ok=True)
    cfile, exe = os.path.join(d, 'driver.c'), os.path.join(d, 'driver')
    open(cfile, 'w').write(src)
    srcs = [os.path.join(irsym.CDIR, x) for x in ('dd_dtw.c', 'dd_ed.c', 'dd_globals.c', 'dd_dtw_openmp.c')]
    cmd = ['gcc', '-g', '-O0', '-DNDEBUG', '-fopenmp', '-fsanitize=address,undefined', '-fno-sanitize-recover=undefined', '-I' + irsym.CDIR, cfile] + srcs + ['-lm', '-o', exe]
    p = subprocess.run(cmd, capture_output=True, text=True)
    if p.returncode != 0:
        return False, 'compile error ' + p.stderr[-500:]
    env = dict(os.environ, ASAN_OPTIONS='detect_leaks=0', OMP_NUM_THREADS='3')
    r = subprocess.run([exe], capture_output=True, text=True, timeout=120, env=env)
    out = r.stdout + r.stderr
    return (r.returncode != 0), out
