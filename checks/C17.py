"""C17 — Needleman-Wunsch returns the optimal score and a consistent alignment."""
import os
import re
import subprocess
import sys
import time

from engine import smt
from engine.runner import jnum, unj, active_regions, ROOT

ID = 'C17'
ENGINE = 'CrossHair'
TECHNIQUE = 'CrossHair (symbolic execution of alignment.needleman_wunsch / dp.dp / best_alignment / make_substitution_fn on symbolic strings, z3) against a brute-force recursive scorer inside the contract'
BUDGET = {'quick': 420, 'thorough': 3000}
SOURCES = ['src/dtaidistance/alignment.py', 'src/dtaidistance/dp.py']
FUNCTIONS = ['alignment.needleman_wunsch', 'dp.dp', 'alignment.best_alignment (all six traceback orders)', 'alignment.make_substitution_fn (dictionary, opt max / min, gap)',
             'alignment._needleman_wunsch_border, _default_substitution_fn']
BOUNDS = {'quick': {'alphabet': '{A,B}', 'lengths': '1..3 (dictionary substitution: 1..2)', 'orders': 'all 6', 'substitution': 'default, dictionary opt=max/min (gap 1), direction-dependent callable (lengths 1..2); gap 0.5 is the region of the known finding F17-gap-border'},
          'thorough': {'alphabet': '{A,B,C}', 'lengths': '1..4 (dictionary substitution: 1..3; optimality against the exhaustive oracle: 1..4 over {A,B} and 1..3 over {A,B,C})', 'orders': 'all 6'}}
OUTSIDE = ['empty sequences', 'symbolic substitution scores', 'window / max_dist / max_step / psi of dp', 'sequences longer than the bound']
ASSUMPTIONS = ['oracle: exhaustive recursion over all global alignments, inside the contract', 'CrossHair verdict "Confirmed over all paths" only; anything else is inconclusive']
RULE = 'one CrossHair condition per (substitution kind, traceback order); strings symbolic within the length / alphabet bound; plus a reachability twin.'
EXPLANATION = 'bounded symbolic checking with CrossHair (z3) of the real alignment code'

CONTRACTS = os.path.join(ROOT, 'contracts', 'c17_contracts.py')


def tasks(tier, seed):
    src = open(CONTRACTS).read()
    act = active_regions(ID)
    ts = []
    for m in re.finditer(r'^def (_(?:nw|reach)\w+)\(', src, re.M):
        fn = m.group(1)
        if fn == '_nw_gap_half' and 'F17-gap-border' in act:
            continue
        line = src[:m.start()].count('\n') + 2
        small = 'matrix' in fn or 'directed' in fn
        maxlen = (2 if small else 3) if tier == 'quick' else (3 if small else 4)
        combos = [(maxlen, 'AB' if tier == 'quick' else 'ABC')]
        if tier == 'thorough' and fn == '_nw_default':
            # with the exhaustive-alignment oracle inside the contract, length 4 over three symbols does not finish in 2400 s
            combos = [(4, 'AB'), (3, 'ABC')]
        for ml, alpha in combos:
            ts.append({'harness': 'crosshair/' + fn, 'fn': fn, 'line': line, 'maxlen': ml, 'alpha': alpha,
                       'est': 10 ** ml * len(alpha), 'tier': tier, 'seed': seed})
    ts.sort(key=lambda t: -t['est'])
    return ts


def run_task(cfg):
    stats = smt.Stats()
    t0 = time.time()
    twin = cfg['fn'].startswith('_reach')
    env = dict(os.environ, C17_MAXLEN=str(cfg['maxlen']), C17_ALPHA=cfg['alpha'])
    cmd = [sys.executable, '-m', 'crosshair', 'check', '--report_all', '--per_condition_timeout', '330' if cfg['tier'] == 'quick' else '2400',
           '%s:%d' % (CONTRACTS, cfg['line'])]
    try:
        p = subprocess.run(cmd, capture_output=True, text=True, cwd=ROOT, timeout=400 if cfg['tier'] == 'quick' else 2700, env=env)
        out = (p.stdout + p.stderr).strip()
    except subprocess.TimeoutExpired:
        out = 'timeout'
    stats.queries += 1
    stats.nontrivial += 1
    stats.paths += 1
    stats.solver_s += time.time() - t0
    cex, incon, twin_ok = [], 0, None
    if 'Confirmed over all paths' in out and not twin:
        stats.unsat += 1
    elif 'false when calling' in out:
        stats.sat += 1
        m = re.search(r"false when calling (\w+)\((.*?)\) \(which", out)
        if twin:
            twin_ok = True
        else:
            cex.append({'harness': cfg['harness'], 'claim': 'contract %s holds (optimal score, consistent alignment)' % cfg['fn'], 'fn': cfg['fn'],
                        'call': m.group(2) if m else '', 'maxlen': cfg['maxlen'], 'alpha': cfg['alpha'], 'inputs': {}})
    elif 'error:' in out and not twin:
        stats.sat += 1
        m = re.search(r"when calling (\w+)\((.*?)\)", out)
        cex.append({'harness': cfg['harness'], 'claim': 'contract %s holds (it raised)' % cfg['fn'], 'fn': cfg['fn'], 'call': m.group(2) if m else '',
                    'maxlen': cfg['maxlen'], 'alpha': cfg['alpha'], 'inputs': {}, 'soft': not m})
    elif twin:
        twin_ok = False
        stats.unknown += 1
    else:
        stats.unknown += 1
        incon = 1
    return {'stats': stats.as_dict(), 'cex': cex, 'inconclusive': incon, 'twin': twin_ok,
            'sample': {'harness': cfg['harness'], 'condition': cfg['fn'], 'max_length': cfg['maxlen'], 'alphabet': cfg['alpha'], 'crosshair_output': out[-200:]}}


def replay(cex):
    os.environ['C17_MAXLEN'] = str(cex.get('maxlen', 3))
    os.environ['C17_ALPHA'] = cex.get('alpha', 'AB')
    sys.path.insert(0, os.path.join(ROOT, 'contracts'))
    import importlib
    mod = importlib.import_module('c17_contracts')
    try:
        args = eval('(' + cex['call'] + ',)')
        ok = getattr(mod, cex['fn'])(*args)
    except Exception as e:
        return {'reproduced': True, 'observed': 'raised %r for %s' % (e, cex['call'])}
    return {'reproduced': not bool(ok), 'observed': 'contract returned %r for %s' % (ok, cex['call'])}
