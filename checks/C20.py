"""C20 — calls are pure: inputs untouched, container- and history-independent results."""
import itertools
import math
import sys
import types

import z3

from engine import smt, pysym, spec, dtwh
from engine.pysym import SReal, Explorer
from engine.runner import jnum, unj, active_regions

ID = 'C20'
ENGINE = 'PYSYM + IRSYM'
TECHNIQUE = 'symbolic execution of the public Python routines on write-guarded containers of symbolic reals (any write on any path is seen) and in several container representations (result terms must coincide); IRSYM store/global monitors on the C routines with read-only inputs; structural enumeration of array layouts for the contiguity helpers'
BUDGET = {'quick': 360, 'thorough': 2400}
SOURCES = ['src/dtaidistance/util.py', 'src/dtaidistance/util_numpy.py', 'src/dtaidistance/dtw.py', 'src/dtaidistance/ed.py', 'src/dtaidistance/dtw_barycenter.py',
           'src/dtaidistance/dtw_ndim.py', 'src/DTAIDistanceC/DTAIDistanceC/dd_dtw.c', 'src/DTAIDistanceC/DTAIDistanceC/dd_ed.c']
FUNCTIONS = ['SubsequenceSearch (one object asked several times: harness shared with C14)', 'dtw.distance / warping_paths / warping_path / lb_keogh / ub_euclidean / distance_matrix', 'ed.distance', 'dtw_ndim.distance', 'dtw_barycenter.dba / dba_loop',
             'util.SeriesContainer.wrap', 'util_numpy.verify_np_array', 'C: dtw_distance (4 option sets incl. pruning -> euclidean_distance), dtw_warping_paths + dtw_best_path, dtw_warping_path (inputs read-only, no mutable globals; the other C routines run with read-only inputs in C02, C04-C09, C11, C12, C18)']
BOUNDS = {'quick': {'series length': '1..3', 'containers': 'list, tuple, object ndarray (C order, strided view, reversed-stride view), 2-D: C / F order / transposed view, SeriesContainer',
                    'histories': 'repeated call, interleaved calls sharing series and settings dict; one SubsequenceSearch object asked twice (k sequences [1,None], [None,1], [n,1], [1,n], [n+1,1], 2 candidates of length 1..2)'},
          'thorough': {'series length': '1..4'}}
OUTSIDE = ['layout independence of the C engine inside the Cython layer (typed memoryviews): only the pure-Python contiguity helper is checked, structurally, and the compiled '
           'extension is cross-checked on concrete inputs (sampling, labelled as such)', 'array.array inputs hold doubles only: compared concretely', 'NumPy hidden vs present is covered by C01']
ASSUMPTIONS = ['write guards: list subclass raising on mutation; ndarray.flags.writeable = False', 'equal results = syntactically equal z3 terms or solver-proved equality']
RULE = ('configuration = (routine, container representation / call history, length); values symbolic; one query per execution path: results of the '
        'variants differ, or an input was written.')
EXPLANATION = 'bounded symbolic checking of purity and representation independence, solver = z3'

P = z3.Real('P')


def prepare(tier):
    from engine import irsym
    irsym.prepare()


def tasks(tier, seed):
    nmax = 3 if tier == 'quick' else 4
    ts = []
    for r in range(1, nmax + 1):
        for c in range(1, nmax + 1):
            if r * c > 9:
                continue
            ts.append({'harness': 'py/guards+containers', 'fam': 'py', 'r': r, 'c': c, 'est': r * c * 30})
    ts.append({'harness': 'py/collections', 'fam': 'coll', 'est': 300})
    ts.append({'harness': 'twin/guards-fire', 'fam': 'twin', 'est': 10})
    # history independence of a reused search object: sequences of queries on one SubsequenceSearch (harness of C14, multi-call sequences only)
    for ql, lens in ((1, [1, 1]), (1, [2, 1])) + (((2, [2, 1]), (1, [1, 1, 1])) if tier == 'thorough' else ()):
        n = len(lens)
        for seq in ([1, None], [None, 1], [n, 1], [1, n], [n + 1, 1]):
            for use_lb in (True, False):
                for md in (False, True):
                    ts.append({'harness': 'history/search-object', 'fam': 'hist14', 'ql': ql, 'lens': lens, 'seq': seq, 'use_lb': use_lb, 'md': md, 'opt': {},
                               'est': 40 * sum(lens)})
    ts.append({'harness': 'py/dba_loop-copy', 'fam': 'dbacopy', 'est': 20})
    ts.append({'harness': 'c/readonly-inputs', 'fam': 'c', 'est': 200})
    ts.append({'harness': 'layout/verify_np_array', 'fam': 'layout', 'est': 30})
    for t in ts:
        t['tier'], t['seed'] = tier, seed
    ts.sort(key=lambda t: -t['est'])
    return ts


def _same(a, b):
    """are two results (nested lists / arrays of SReal / numbers) identical terms?"""
    np = pysym._np()
    if isinstance(a, (list, tuple)) or isinstance(a, np.ndarray):
        a, b = list(a), list(b)
        return len(a) == len(b) and all(_same(x, y) for x, y in zip(a, b))
    if isinstance(a, SReal) or isinstance(b, SReal):
        return isinstance(a, SReal) and isinstance(b, SReal) and (a.t.eq(b.t) or z3.is_true(z3.simplify(a.t == b.t)))
    if isinstance(a, float) and isinstance(b, float) and math.isnan(a) and math.isnan(b):
        return True
    return a == b


def _variants(vals, np):
    """the same numeric content in different container representations (write-guarded)"""
    n = len(vals)
    out = {}
    out['list'] = pysym.GuardedList(vals)
    out['tuple'] = tuple(vals)
    a = pysym.objarray(list(vals))
    a.flags.writeable = False
    out['ndarray'] = a
    big = pysym.objarray([v for x in vals for v in (x, 12345.0)])
    st = big[::2]
    st.flags.writeable = False
    out['strided view'] = st
    rev = pysym.objarray(list(vals)[::-1])[::-1]
    rev.flags.writeable = False
    out['reversed-stride view'] = rev
    return out


def run_task(cfg):
    fam = cfg['fam']
    if fam in ('dbacopy', 'layout'):
        return _in_subprocess(cfg)
    if fam == 'hist14':
        from checks import C14
        res = C14.run_task(dict(cfg, harness='search'))
        for c in res.get('cex', []):
            c['delegate'] = 'C14'
            c['harness'] = cfg['harness']
            c['fam'] = fam
        if res.get('sample'):
            res['sample']['harness'] = cfg['harness']
        return res
    dtw, dtw_ndim, innerdistance, ed, util, util_numpy, bary = dtwh.load('dtw', 'dtw_ndim', 'innerdistance', 'ed', 'util', 'util_numpy', 'dtw_barycenter')
    np = pysym._np()
    stats = smt.Stats()
    cexs, incon, sample = [], 0, None

    def report(claim, meta, inputs=None, soft=False):
        stats.sat += 1
        cexs.append(dict(meta, claim=claim, inputs=inputs or {}, soft=soft))

    if fam == 'py':
        r, c = cfg['r'], cfg['c']
        a = [z3.Real('a%d' % i) for i in range(r)]
        b = [z3.Real('b%d' % j) for j in range(c)]
        A, B = [SReal(x) for x in a], [SReal(x) for x in b]
        syms = {str(x): x for x in a + b}
        syms['P'] = P
        routines = {
            'distance': lambda s1, s2: dtw.distance(s1, s2, penalty=SReal(P), window=2),
            'distance psi': lambda s1, s2: dtw.distance(s1, s2, psi=1) if not spec.psi_degenerate(r, c, 1) else 0,
            'warping_paths': lambda s1, s2: (lambda d, m: [d] + [x for x in m.flat])(*dtw.warping_paths(s1, s2, penalty=SReal(P))),
            'warping_path': lambda s1, s2: dtw.warping_path(s1, s2),
            'lb_keogh': lambda s1, s2: dtw.lb_keogh(s1, s2, window=2),
            'ub_euclidean': lambda s1, s2: dtw.ub_euclidean(s1, s2),
            'ed.distance': lambda s1, s2: ed.distance(s1, s2, inner_dist='euclidean'),
        }
        for name, fn in routines.items():
            meta = {'harness': cfg['harness'], 'fam': fam, 'routine': name, 'r': r, 'c': c}

            def run():
                v1, v2 = _variants(A, np), _variants(B, np)
                res = {}
                for k in v1:
                    res[k] = fn(v1[k], v2[k])
                # history: repeat on the same objects, and interleave with another routine sharing the series
                again = fn(v1['list'], v2['list'])
                _other = dtw.distance(v1['list'], v2['list'], window=1)
                third = fn(v1['list'], v2['list'])
                return res, again, third
            ex = Explorer([P >= 0], max_paths=1500, stats=stats)
            for p in ex.explore(run):
                stats.queries += 1
                if p.exc is not None:
                    if isinstance(p.exc, pysym.WriteSeen) or (isinstance(p.exc, ValueError) and 'read-only' in str(p.exc)):
                        s_ = z3.Solver()
                        s_.add(P >= 0, *p.facts())
                        vals = {k: smt.model_val(s_.model(), v) for k, v in syms.items()} if s_.check() == z3.sat else {}
                        report('%s does not modify its input series (%s)' % (name, str(p.exc)[:60]), meta, vals)
                    elif isinstance(p.exc, (pysym.Realised, NotImplementedError)):
                        incon += 1
                    else:
                        report('%s accepts every container representation (it raised %s: %s)' % (name, type(p.exc).__name__, str(p.exc)[:80]), meta, {}, soft=True)
                    continue
                res, again, third = p.result
                base = res['list']
                bad = [k for k in res if not _same(res[k], base)]
                if bad:
                    s_ = z3.Solver()
                    s_.add(P >= 0, *p.facts())
                    vals = {k: smt.model_val(s_.model(), v) for k, v in syms.items()} if s_.check() == z3.sat else {}
                    report('%s gives the same result for every container representation (differs for %s)' % (name, bad), dict(meta, variants=bad), vals)
                elif not _same(again, base) or not _same(third, base):
                    report('%s gives the same result when repeated / interleaved with other calls on the same objects' % name, meta, {})
                else:
                    stats.unsat += 1
                    stats.nontrivial += 1
            incon += ex.inconclusive_paths
        sample = {'harness': cfg['harness'], 'r': r, 'c': c, 'routines': list(routines), 'containers': ['list', 'tuple', 'ndarray', 'strided view', 'reversed-stride view']}
    elif fam == 'twin':
        # reachability twin: a routine that does write / does depend on the representation must be flagged by the same machinery
        A = [SReal(z3.Real('a%d' % i)) for i in range(2)]
        seen = []
        for k, v in _variants(A, np).items():
            try:
                v[0] = 0.0
                seen.append((k, 'no write seen'))
            except (pysym.WriteSeen, ValueError, TypeError):
                pass
        for k, v in _variants(A, np).items():
            if not _same(list(v), A):
                seen.append((k, 'content differs'))
        if _same([A[0], A[1]], [A[1], A[0]]) or _same(A[0] + 1, A[0]):
            seen.append(('_same', 'does not distinguish different terms'))
        stats.queries += 1
        return {'stats': stats.as_dict(), 'cex': [], 'inconclusive': 0, 'sample': {'harness': cfg['harness'], 'problems': seen}, 'twin': not seen}
    elif fam == 'coll':
        # collections: list of lists / list of arrays / 2-D array / SeriesContainer; ndim: C order, F order, transposed view
        n, ln = 3, 2
        sv = [[z3.Real('s%d_%d' % (q, j)) for j in range(ln)] for q in range(n)]
        rows = [[SReal(x) for x in row] for row in sv]
        meta = {'harness': cfg['harness'], 'fam': fam}

        def run():
            forms = {
                'list of lists': [pysym.GuardedList(r_) for r_ in rows],
                'list of arrays': [pysym.objarray(list(r_)) for r_ in rows],
                '2-D array': pysym.objarray([list(r_) for r_ in rows]),
                'SeriesContainer': util.SeriesContainer([pysym.objarray(list(r_)) for r_ in rows]),
            }
            for v in forms.values():
                if isinstance(v, np.ndarray):
                    v.flags.writeable = False
                elif isinstance(v, list):
                    for x in v:
                        if isinstance(x, np.ndarray):
                            x.flags.writeable = False
            out = {k: list(dtw.distance_matrix(v, compact=True, penalty=SReal(P))) for k, v in forms.items()}
            # multivariate pair in C order, F order and as a transposed view of channel-first data
            m1 = pysym.objarray([[rows[0][0], rows[0][1]], [rows[1][0], rows[1][1]]])
            m2 = pysym.objarray([[rows[2][0], rows[2][1]], [rows[1][1], rows[0][0]]])
            nd = {'C order': (m1, m2), 'F order': (np.asfortranarray(m1), np.asfortranarray(m2)),
                  'transposed view': (np.ascontiguousarray(m1.T).T, np.ascontiguousarray(m2.T).T)}
            outn = {k: dtw_ndim.distance(x, y) for k, (x, y) in nd.items()}
            # barycenter: inputs untouched
            series = [pysym.objarray(list(r_)) for r_ in rows]
            for x in series:
                x.flags.writeable = False
            c0 = pysym.objarray(list(rows[0]))
            c0.flags.writeable = False
            avg = bary.dba(series, c0, mask=np.array([True, True, False]))
            return out, outn, [x for x in avg]
        ex = Explorer([P >= 0], max_paths=2500, stats=stats, pairwise=True)
        for p in ex.explore(run):
            stats.queries += 1
            if p.exc is not None:
                if isinstance(p.exc, pysym.WriteSeen) or (isinstance(p.exc, ValueError) and 'read-only' in str(p.exc)):
                    report('collection routines do not modify their inputs (%s)' % str(p.exc)[:60], meta)
                elif isinstance(p.exc, (pysym.Realised, NotImplementedError)):
                    incon += 1
                else:
                    report('collection routines accept every container form (raised %s: %s)' % (type(p.exc).__name__, str(p.exc)[:80]), meta, {}, soft=True)
                continue
            out, outn, avg = p.result
            base = out['list of lists']
            bad = [k for k in out if not _same(out[k], base)] + [k for k in outn if not _same(outn[k], outn['C order'])]
            if bad:
                report('distance_matrix / dtw_ndim.distance give the same result for every container form (differs for %s)' % bad, dict(meta, variants=bad))
            else:
                stats.unsat += 1
                stats.nontrivial += 1
        incon += ex.inconclusive_paths
        sample = {'harness': cfg['harness'], 'forms': ['list of lists', 'list of arrays', '2-D array', 'SeriesContainer', 'C/F order, transposed view (ndim)']}
    elif fam == 'c':
        from engine import irsym, ckern, cspec
        irmod = irsym.module()
        meta = {'harness': cfg['harness'], 'fam': fam}
        mode = dtwh.SeriesMode(3, 3, 'squared euclidean')
        S = z3.Real('S')
        jobs = []
        for pykw in ({}, {'window': 1, 'penalty': SReal(P), 'psi': (1, 0, 0, 1)}, {'use_pruning': True}, {'inner_dist': 'euclidean', 'max_step': SReal(S)}):
            def job(pykw=pykw):
                res, M = dtwh.c_distance(irmod, mode, dtwh.c_settings(dtw, **pykw))
                return list(M.global_access)
            jobs.append(('dtw_distance %s' % sorted(pykw), job))

        def job_wps():
            w = ckern.warping_paths(irmod, mode, dtwh.c_settings(dtw, penalty=SReal(P)), keep_int_repr=True)
            ckern.best_path(w)
            return list(w.M.global_access)
        jobs.append(('dtw_warping_paths + dtw_best_path', job_wps))

        def job_wp():
            d, path, M = ckern.warping_path(irmod, mode, dtwh.c_settings(dtw, window=2))
            return list(M.global_access)
        jobs.append(('dtw_warping_path', job_wp))
        for name, job in jobs:
            ex = Explorer([P >= 0, S > 0], max_paths=400, stats=stats)
            for p in ex.explore(job):
                stats.queries += 1
                if p.exc is not None and isinstance(p.exc, irsym.Violation):
                    if p.exc.kind in ('write-to-input', 'foreign-write'):
                        report('C %s does not write into its input buffers (%s)' % (name, p.exc), meta, {}, soft=True)
                    continue        # other undefined behaviour is C08's subject
                if p.exc is not None:
                    if isinstance(p.exc, (pysym.Realised, NotImplementedError, irsym.Unsupported)):
                        incon += 1
                        continue
                    raise p.exc
                if p.result:
                    report('C %s touches mutable global state %r' % (name, p.result[:3]), meta, {}, soft=True)
                else:
                    stats.unsat += 1
                    stats.nontrivial += 1
            incon += ex.inconclusive_paths
        sample = {'harness': cfg['harness'], 'routines': [n_ for n_, _ in jobs], 'monitor': 'inputs read-only, stores only to own allocations / outputs, no mutable globals'}
    return {'stats': stats.as_dict(), 'cex': cexs[:8], 'inconclusive': incon, 'sample': sample}


# --------------------------------------------------------------------------------------------------
def _in_subprocess(cfg):
    """the concrete/structural families need the unpatched modules: run them in a fresh interpreter"""
    import json
    import subprocess
    import os
    out = subprocess.run([sys.executable, '-c', 'import json,sys; sys.path[:0]=[%r,%r]; from checks import C20;' % (os.path.join(os.environ.get('VERIF_REPO', '/repo'), 'src'), os.path.dirname(os.path.dirname(os.path.abspath(__file__)))) + ' print("@@"+json.dumps(C20._concrete(json.loads(sys.argv[1]))))', json.dumps(cfg)],
                         cwd=os.path.dirname(os.path.dirname(os.path.abspath(__file__))), capture_output=True, text=True, timeout=300)
    for line in out.stdout.splitlines():
        if line.startswith('@@'):
            return json.loads(line[2:])
    raise RuntimeError('concrete family failed: ' + out.stderr[-800:])


def _concrete(cfg):
    fam = cfg['fam']
    stats = smt.Stats()
    cexs, incon, sample = [], 0, None

    def report(claim, meta, inputs=None, soft=False):
        stats.sat += 1
        cexs.append(dict(meta, claim=claim, inputs=inputs or {}, soft=soft))
    if fam == 'dbacopy':
        # dba_loop(use_c=True): the C routine overwrites the average buffer it is given; the caller's objects must stay intact
        meta = {'harness': cfg['harness'], 'fam': fam}
        import numpy as realnp
        from dtaidistance import dtw_barycenter as real_bary
        series = [realnp.array([0.0, 1.0, 2.0]), realnp.array([1.0, 1.0, 3.0])]
        keep = [s_.copy() for s_ in series]
        c0 = realnp.array([0.5, 0.5, 0.5])
        c_keep = c0.copy()
        seen = {'same_buffer': False, 'calls': 0}

        class FakeCC:
            @staticmethod
            def dba(s_, c, mask=None, nb_prob_samples=0, **kw):
                seen['calls'] += 1
                if c is c0:
                    seen['same_buffer'] = True
                c[:] = 77.0           # "reuses this array"
        saved = real_bary.dtw_cc
        real_bary.dtw_cc = FakeCC
        try:
            avg = real_bary.dba_loop(series, c=c0, max_it=2, thr=None, use_c=True)
        finally:
            real_bary.dtw_cc = saved
        stats.queries += 1
        stats.paths += 1
        if seen['same_buffer'] or not realnp.array_equal(c0, c_keep) or any(not realnp.array_equal(x, y) for x, y in zip(series, keep)):
            report('dba_loop hands a copy of the average to the in-place C update (caller objects untouched)', meta)
        else:
            stats.unsat += 1
            stats.nontrivial += 1
        sample = {'harness': cfg['harness'], 'c_calls': seen['calls']}
    elif fam == 'layout':
        # util_numpy.verify_np_array: post-condition "C-contiguous array with the same content" for every layout (structural enumeration)
        import numpy as realnp
        from dtaidistance import util_numpy as un
        meta = {'harness': cfg['harness'], 'fam': fam}
        base1 = realnp.arange(12, dtype=float)
        base2 = realnp.arange(24, dtype=float).reshape(4, 6)
        layouts = {
            '1-D contiguous': base1, '1-D strided': base1[::2], '1-D reversed': base1[::-1],
            '2-D C order': base2, '2-D F order': realnp.asfortranarray(base2), '2-D transposed view': base2.T,
            '2-D column slice': base2[:, 1:4], '2-D row-strided': base2[::2, :], '2-D both strided': base2[::2, ::3],
            '3-D F order': realnp.asfortranarray(realnp.arange(24, dtype=float).reshape(2, 3, 4)),
        }
        for name, arr in layouts.items():
            stats.queries += 1
            stats.paths += 1
            before = arr.copy()
            out = un.verify_np_array(arr)
            ok = isinstance(out, realnp.ndarray) and out.flags.c_contiguous and out.shape == arr.shape and realnp.array_equal(out, before) and realnp.array_equal(arr, before)
            if not ok:
                report('verify_np_array returns a C-contiguous array with the same content for layout %s' % name, dict(meta, layout=name))
            else:
                stats.unsat += 1
                stats.nontrivial += 1
        # concrete cross-check of the compiled extension (sampling of the glue, DESIGN 2.8)
        try:
            from dtaidistance import dtw_ndim as real_nd
            raw1 = realnp.array([[0., 1, 2, 0], [1., 1, 0, 2]])
            raw2 = realnp.array([[0., 2, 2, 1], [0., 1, 1, 2]])
            d_view = real_nd.distance_fast(raw1.T, raw2.T)
            d_copy = real_nd.distance_fast(realnp.ascontiguousarray(raw1.T), realnp.ascontiguousarray(raw2.T))
            d_py = real_nd.distance(raw1.T, raw2.T)
            stats.queries += 1
            if not (spec.close(d_view, d_copy) and spec.close(d_view, d_py)):
                report('compiled dtw_ndim.distance_fast gives the same result for a transposed (F-contiguous) view and its C-ordered copy', dict(meta, layout='api'), {})
            else:
                stats.unsat += 1
        except Exception as e:      # extension not importable: nothing to cross-check
            pass
        sample = {'harness': cfg['harness'], 'layouts': list(layouts)}
    return {'stats': stats.as_dict(), 'cex': cexs[:8], 'inconclusive': incon, 'sample': sample}


def replay(cex):
    import numpy as np
    if cex.get('delegate') == 'C14':
        from checks import C14
        return C14.replay(cex)
    fam = cex['fam']
    claim = cex['claim']
    if fam == 'layout':
        from dtaidistance import util_numpy as un
        if cex.get('layout') == 'api':
            from dtaidistance import dtw_ndim
            raw1 = np.array([[0., 1, 2, 0], [1., 1, 0, 2]])
            raw2 = np.array([[0., 2, 2, 1], [0., 1, 1, 2]])
            a, b = dtw_ndim.distance_fast(raw1.T, raw2.T), dtw_ndim.distance_fast(np.ascontiguousarray(raw1.T), np.ascontiguousarray(raw2.T))
            return {'reproduced': not spec.close(a, b), 'observed': [a, b]}
        base1 = np.arange(12, dtype=float)
        base2 = np.arange(24, dtype=float).reshape(4, 6)
        layouts = {'1-D contiguous': base1, '1-D strided': base1[::2], '1-D reversed': base1[::-1], '2-D C order': base2, '2-D F order': np.asfortranarray(base2),
                   '2-D transposed view': base2.T, '2-D column slice': base2[:, 1:4], '2-D row-strided': base2[::2, :], '2-D both strided': base2[::2, ::3],
                   '3-D F order': np.asfortranarray(np.arange(24, dtype=float).reshape(2, 3, 4))}
        arr = layouts[cex['layout']]
        out = un.verify_np_array(arr)
        ok = out.flags.c_contiguous and np.array_equal(out, arr)
        return {'reproduced': not ok, 'observed': {'c_contiguous': bool(out.flags.c_contiguous)}}
    if fam == 'dbacopy':
        from dtaidistance import dtw_barycenter as bary
        series = [np.array([0.0, 1.0, 2.0]), np.array([1.0, 1.0, 3.0])]
        c0 = np.array([0.5, 0.5, 0.5])
        keep = c0.copy()

        class FakeCC:
            @staticmethod
            def dba(s_, c, mask=None, nb_prob_samples=0, **kw):
                c[:] = 77.0
        saved = bary.dtw_cc
        bary.dtw_cc = FakeCC
        try:
            bary.dba_loop(series, c=c0, max_it=2, thr=None, use_c=True)
        finally:
            bary.dtw_cc = saved
        return {'reproduced': not np.array_equal(c0, keep), 'observed': c0.tolist()}
    if fam == 'py':
        from dtaidistance import dtw, ed
        inp = unj(cex['inputs'])
        r, c = cex['r'], cex['c']
        a = [float(inp.get('a%d' % i, i)) for i in range(r)]
        b = [float(inp.get('b%d' % j, j + 0.5)) for j in range(c)]
        pen = float(inp.get('P', 0.5))
        fns = {'distance': lambda x, y: dtw.distance(x, y, penalty=pen, window=2), 'distance psi': lambda x, y: dtw.distance(x, y, psi=1),
               'warping_paths': lambda x, y: dtw.warping_paths(x, y, penalty=pen)[1].tolist(), 'warping_path': lambda x, y: dtw.warping_path(x, y),
               'lb_keogh': lambda x, y: dtw.lb_keogh(x, y, window=2), 'ub_euclidean': lambda x, y: dtw.ub_euclidean(x, y),
               'ed.distance': lambda x, y: ed.distance(x, y, inner_dist='euclidean')}
        fn = fns[cex['routine']]
        import array as _array

        def forms(v):
            big = np.array([x for y in v for x in (y, 12345.0)])
            return {'list': list(v), 'tuple': tuple(v), 'ndarray': np.array(v), 'strided view': big[::2], 'reversed-stride view': np.array(v[::-1])[::-1],
                    'array.array': _array.array('d', v)}
        fa, fb = forms(a), forms(b)
        try:
            res = {}
            for k in fa:
                x, y = fa[k], fb[k]
                bx = list(x)
                res[k] = fn(x, y)
                if list(x) != bx:
                    return {'reproduced': True, 'observed': 'input %s modified' % k}
        except Exception as e:
            return {'reproduced': True, 'observed': 'raised %r' % (e,)}
        base = res['list']
        bad = [k for k, v in res.items() if not (v == base or (isinstance(v, float) and spec.close(v, base)))]
        return {'reproduced': bool(bad), 'observed': {k: (v if isinstance(v, float) else str(v)[:60]) for k, v in res.items()}}
    return {'reproduced': False, 'error': 'no replay for this harness (structural finding)'}
