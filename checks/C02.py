"""C02 — the C engine returns the same distances as the Python engine (same real-valued function)."""
import itertools
import math
import random
from fractions import Fraction

import z3

from engine import smt, pysym, spec, dtwh
from engine.pysym import SReal, Explorer
from engine.smt import INF, ER
from engine.runner import jnum, unj, active_regions

ID = 'C02'
ENGINE = 'IRSYM + PYSYM'
TECHNIQUE = 'symbolic execution of the clang LLVM-IR of the C kernels and of the real Python code on shared z3 variables; equivalence queries per joint path (z3)'
BUDGET = {'quick': 420, 'thorough': 1800}
SOURCES = ['src/DTAIDistanceC/DTAIDistanceC/dd_dtw.c', 'src/DTAIDistanceC/DTAIDistanceC/dd_ed.c',
           'src/DTAIDistanceC/DTAIDistanceC/dd_dtw.h', 'src/DTAIDistanceC/DTAIDistanceC/dd_globals.h',
           'src/dtaidistance/dtw.py', 'src/dtaidistance/innerdistance.py', 'src/dtaidistance/ed.py',
           'src/dtaidistance/dtw_cc.pyx']
FUNCTIONS = ['dd_dtw.c: dtw_distance, dtw_distance_euclidean, dtw_distance_ndim, dtw_distance_ndim_euclidean, ub_euclidean*',
             'dd_ed.c: euclidean_distance*', 'dtw.py: distance, DTWSettings.__init__/c_kwargs/split_psi/set_max_dist',
             'dtw_cc.pyx DTWSettings.__init__ (transcribed option mapping)']
BOUNDS = {
    'quick': {'1-D without data dependent control': 'r,c <= 4, all windows, penalty None|symbolic, psi None/int/4-tuples',
              '1-D with max_dist / use_pruning / only_ub': 'r*c <= 6 (+ 3x3 without max_step)', '1-D with max_step': 'r*c <= 4', 'ndim': '2, r,c <= 2 (3 without forks)',
              'inner_dist': 'squared euclidean, euclidean'},
    'thorough': {'1-D without data dependent control': 'r,c <= 5', '1-D with data dependent control': 'r*c <= 12',
                 'ndim': '1..3, r,c <= 3', 'inner_dist': 'both'},
}
OUTSIDE = ['ulp-level differences: both engines are compared as real-valued functions', 'the Cython layer beyond the '
           'transcribed option mapping (cross-checked concretely on replays only)', 'series longer than the bound']
ASSUMPTIONS = ['clang -O0 + mem2reg IR of the working tree is the C semantics (NDEBUG as in the real build)',
               'malloc never fails', 'sqrt uninterpreted with monotonicity and sqrt(t)<=|u| <=> t<=u^2 lemmas',
               'squares abstracted by SQ with sign/monotonicity lemmas; sat answers are refined with exact squares and replayed',
               'transcription of dtw_cc.pyx DTWSettings.__init__']
RULE = ('configuration = (ndim, inner distance, r, c, window, penalty, psi, max_step, max_dist, use_pruning, only_ub, '
        'max_length_diff); one query per pair (Python path, C path) with a satisfiable joint path condition: '
        'results differ. Non-trivial = not closed syntactically.')
EXPLANATION = 'bounded symbolic equivalence checking Python engine vs C engine (LLVM IR), solver = z3'


def _grid(r, c, tier, rnd, ndim):
    out = _grid0(r, c, tier, rnd, ndim)
    act = active_regions(ID)
    if 'F02-mld0' in act:
        out = [o for o in out if not (o['mld'] == 0 and r != c)]
    if 'F02-prune-invalid' in act:
        out = [o for o in out if not (o['prune'] and o['pen'] and r != c)]
    return out


def _grid0(r, c, tier, rnd, ndim):
    out = []
    big = 4 if tier == 'quick' else 5
    nofork_ok = (r <= big and c <= big) if ndim == 1 else (r <= 3 and c <= 3)
    fork_ok = (r * c <= 6 if tier == 'quick' else r * c <= 12) if ndim == 1 else (r * c <= (4 if tier == 'quick' else 9))
    step_ok = fork_ok and (r * c <= (4 if tier == 'quick' else 9))

    base = {'pen': False, 'psi': None, 'step': False, 'md': False, 'prune': False, 'ub': False, 'mld': None, 'window': None}
    if tier == 'quick' and ndim == 1 and r == 3 and c == 3:
        out.append(dict(base, md=True, pen=True))
        out.append(dict(base, prune=True, window=2))
        out.append(dict(base, ub=True))
    if nofork_ok:
        wins = dtwh.windows(r, c)
        psis = dtwh.psi_options(r, c, tier, rnd, nrandom=3)
        if ndim > 1:
            wins = [None, 1, 2]
            psis = [p for p in psis if p is None or isinstance(p, int) or p in ((1, 0, 0, 1), (0, 1, 1, 0))]
        for w in wins:
            for pen in (False, True):
                for psi in psis:
                    out.append(dict(base, window=w, pen=pen, psi=psi))
        for mld in (0, 1):
            out.append(dict(base, mld=mld))
            out.append(dict(base, mld=mld, window=1, pen=True))
    if fork_ok:
        sp = [None, 1, (1, 0, 0, 1), (0, 1, 0, 1)]
        sp = [p for p in sp if p is None or not spec.psi_degenerate(r, c, p)]
        sp = [p for p in sp if not (isinstance(p, int) and p > min(r, c))]
        for w in (None, 1, 2):
            for pen in (False, True):
                for psi in sp:
                    if step_ok:
                        out.append(dict(base, window=w, pen=pen, psi=psi, step=True))
                    out.append(dict(base, window=w, pen=pen, psi=psi, md=True))
                for psi in sp[:2]:
                    out.append(dict(base, window=w, pen=pen, psi=psi, prune=True))
            if step_ok:
                out.append(dict(base, window=w, step=True, md=True))
            out.append(dict(base, window=w, ub=True))
            out.append(dict(base, window=w, ub=True, pen=True))
    return out


def prepare(tier):
    from engine import irsym
    irsym.prepare()


def tasks(tier, seed):
    ts = []
    n = 4 if tier == 'quick' else 5
    dims = (1, 2) if tier == 'quick' else (1, 2, 3)
    for ndim in dims:
        for inner in ('sq', 'abs'):
            for r in range(1, n + 1):
                for c in range(1, n + 1):
                    if ndim > 1 and (r > 3 or c > 3):
                        continue
                    rnd = random.Random(seed * 977 + r * 10 + c)
                    grid = _grid(r, c, tier, rnd, ndim)
                    chunk, est = [], 0
                    limit = 3000 if tier == 'quick' else 12000
                    for o in grid:
                        chunk.append(o)
                        w = 1
                        if o['step']:
                            w *= 2 ** (r * c)
                        if o['md'] or o['prune']:
                            w *= 2 ** min(r * c, 7)
                        est += w * r * c * ndim
                        if est >= limit:
                            ts.append(_mk(ndim, inner, r, c, tier, seed, chunk, est))
                            chunk, est = [], 0
                    if chunk:
                        ts.append(_mk(ndim, inner, r, c, tier, seed, chunk, est))
    for k in range(4 if tier == 'quick' else 16):
        ts.append({'harness': 'translator-validation', 'part': k, 'tier': tier, 'seed': seed, 'est': 300})
    ts.sort(key=lambda t: -t['est'])
    return ts


def _translator_validation(cfg):
    """concrete traces: the IR interpreter vs. the library compiled from the same sources (bit-equal doubles)"""
    import math
    from engine import irsym, native, validate
    irmod = irsym.module()
    rnd = random.Random(cfg['seed'] * 104729 + cfg['part'])
    stats = smt.Stats()
    bad, n = [], 0
    ex = Explorer([], stats=stats)
    for _ in range(40):
        ndim = rnd.choice((1, 1, 2))
        r, c = rnd.randint(1, 6), rnd.randint(1, 6)
        s1 = [rnd.choice((-2.0, -1.0, -0.5, 0.0, 0.3, 0.5, 1.0, 1.7, 3.0)) for _ in range(r * ndim)]
        s2 = [rnd.choice((-2.0, -1.0, -0.5, 0.0, 0.3, 0.5, 1.0, 1.7, 3.0)) for _ in range(c * ndim)]
        kw = {}
        if rnd.random() < .5:
            kw['window'] = rnd.randint(1, 5)
        if rnd.random() < .4:
            kw['penalty'] = rnd.choice([0.3, 1.0, 2.0])
        if rnd.random() < .4:
            kw.update(psi_1b=rnd.randint(0, min(2, r)), psi_1e=rnd.randint(0, min(2, r)), psi_2b=rnd.randint(0, min(2, c)), psi_2e=rnd.randint(0, min(2, c)))
        if rnd.random() < .3:
            kw['max_step'] = rnd.choice([1.5, 3.0])
        if rnd.random() < .3:
            kw['max_dist'] = rnd.choice([2.0, 5.0])
        if rnd.random() < .2:
            kw['use_pruning'] = True
        if rnd.random() < .3:
            kw['inner_dist'] = 1
        if rnd.random() < .2:
            kw['max_length_diff'] = rnd.randint(0, 2)
        fn = rnd.choice(['dtw_distance', 'dtw_distance', 'lb_keogh', 'ub_euclidean'])
        L = native.lib()
        a, b = native.Fenced(s1), native.Fenced(s2)
        st = native.settings(dict(irsym.SETTINGS_DEFAULT, **kw))
        import ctypes
        if fn == 'dtw_distance':
            real = L.dtw_distance(a.ptr, r, b.ptr, c, ctypes.byref(st)) if ndim == 1 else L.dtw_distance_ndim(a.ptr, r, b.ptr, c, ndim, ctypes.byref(st))
        elif fn == 'lb_keogh':
            if ndim != 1:
                continue
            real = L.lb_keogh(a.ptr, r, b.ptr, c, ctypes.byref(st))
        else:
            real = L.ub_euclidean(a.ptr, r, b.ptr, c) if ndim == 1 else L.ub_euclidean_ndim(a.ptr, r, b.ptr, c, ndim)

        def go():
            M = irsym.Machine(irmod)
            p1, p2, sp = M.new_doubles('s1', s1), M.new_doubles('s2', s2), irsym.mk_settings(M, **kw)
            if fn == 'dtw_distance':
                return M.run('dtw_distance', [p1, r, p2, c, sp]) if ndim == 1 else M.run('dtw_distance_ndim', [p1, r, p2, c, ndim, sp])
            if fn == 'lb_keogh':
                return M.run('lb_keogh', [p1, r, p2, c, sp])
            return M.run('ub_euclidean', [p1, r, p2, c]) if ndim == 1 else M.run('ub_euclidean_ndim', [p1, r, p2, c, ndim])
        res = list(ex.explore(go))
        got = res[0].result if (len(res) == 1 and res[0].exc is None) else repr([p.exc for p in res])
        n += 1
        ok = isinstance(got, float) and (got == real or (math.isnan(got) and math.isnan(real)))
        if not ok or not (a.intact() and b.intact()):
            bad.append({'fn': fn, 'ndim': ndim, 's1': s1, 's2': s2, 'kw': kw, 'interpreter': str(got)[:120], 'native': real})
    if bad:
        raise RuntimeError('translator validation: IR interpreter and compiled library disagree on %d of %d concrete calls, e.g. %r' % (len(bad), n, bad[0]))
    stats.queries += n
    stats.unsat += n
    return {'stats': stats.as_dict(), 'cex': [], 'inconclusive': 0, 'validated': n,
            'sample': {'harness': cfg['harness'], 'traces': n, 'routines': ['dtw_distance', 'dtw_distance_ndim', 'lb_keogh', 'ub_euclidean(_ndim)'], 'comparison': 'bit-equal doubles'}}


def _mk(ndim, inner, r, c, tier, seed, chunk, est):
    return {'harness': 'pair/%dd-%s' % (ndim, inner), 'ndim': ndim, 'inner': inner, 'r': r, 'c': c, 'tier': tier,
            'seed': seed, 'opts': jnum(chunk), 'est': est}


def _unopt(o):
    o = dict(o)
    if isinstance(o.get('psi'), list):
        o['psi'] = tuple(o['psi'])
    return o


P, S, Mx = z3.Real('P'), z3.Real('S'), z3.Real('M')


def py_kwargs(o, innername):
    kw = {'window': o['window'], 'psi': o['psi'], 'inner_dist': innername}
    if o['pen']:
        kw['penalty'] = SReal(P)
    if o['step']:
        kw['max_step'] = SReal(S)
    if o['md']:
        kw['max_dist'] = SReal(Mx)
    if o['prune']:
        kw['use_pruning'] = True
    if o['mld'] is not None:
        kw['max_length_diff'] = o['mld']
    return kw


def result_er(res, sq):
    """engine result -> (ER, under_sqrt flag)"""
    if isinstance(res, SReal):
        res = res.t
    if isinstance(res, float) and math.isinf(res):
        return ER.infinity(), False
    if isinstance(res, float) and res != res:
        return None, False
    if isinstance(res, (int, float, Fraction)):
        return ER(smt.rv(res)), False
    if sq and z3.is_app(res) and res.decl().name() == 'SQRT' and res.decl().kind() == z3.Z3_OP_UNINTERPRETED:
        return ER(res.arg(0)), True
    return ER(res), False


def engines_differ(py, cc, sq):
    a, ua = result_er(py, sq)
    b, ub = result_er(cc, sq)
    if a is None or b is None:
        return z3.BoolVal(True)
    if ua != ub:           # compare on the result level
        a, _ = result_er(py, False)
        b, _ = result_er(cc, False)
    return smt.er_neq(a, b)


def run_task(cfg):
    from engine import irsym
    if cfg['harness'] == 'translator-validation':
        return _translator_validation(cfg)
    dtw, innerdistance, ed = dtwh.load('dtw', 'innerdistance', 'ed')
    irmod = irsym.module()
    ndim, r, c = cfg['ndim'], cfg['r'], cfg['c']
    innername = 'squared euclidean' if cfg['inner'] == 'sq' else 'euclidean'
    sq = cfg['inner'] == 'sq'
    stats = smt.Stats()
    cexs, incon, sample, truncated, monitors = [], 0, None, False, 0
    for o in [_unopt(x) for x in cfg['opts']]:
        mode = dtwh.SeriesMode(r, c, innername, ndim=ndim)
        assume = list(mode.assume) + [P >= 0, S > 0, Mx > 0]
        kw = py_kwargs(o, innername)
        if ndim > 1:
            kw['use_ndim'] = True
        syms = {'penalty': P if o['pen'] else None, 'max_step': S if o['step'] else None,
                'max_dist': Mx if o['md'] else None}
        meta = {'harness': cfg['harness'], 'ndim': ndim, 'inner': cfg['inner'], 'r': r, 'c': c, 'opts': jnum(o)}
        ex1 = Explorer(assume, max_paths=3000, stats=stats)
        for p1 in ex1.explore(lambda: dtw.distance(mode.s1, mode.s2, only_ub=o['ub'], **kw)):
            f1 = assume + p1.facts()
            if p1.exc is not None:
                m = dict(meta, claim='Python engine raises %s where the C engine accepts the input' % type(p1.exc).__name__)
                cx = dtwh.claim(stats, f1, z3.BoolVal(True), mode, syms, m, lemmas='unary')
                if cx == 'unknown':
                    incon += 1
                elif cx is not None:
                    cexs.append(cx)
                continue

            def crun():
                ckw = dict(kw)
                ckw.pop('use_ndim', None)
                cs = dtwh.c_settings(dtw, only_ub=o['ub'], **ckw)
                return dtwh.c_distance(irmod, mode, cs)[0]
            ex2 = Explorer(f1, max_paths=200, stats=stats)
            for p2 in ex2.explore(crun):
                facts = f1 + p2.facts()
                if p2.exc is not None:
                    if isinstance(p2.exc, irsym.Violation):
                        monitors += 1
                        m = dict(meta, claim='C engine leaves its buffers / executes UB (%s) where Python returns a value' % p2.exc.kind,
                                 monitor=str(p2.exc))
                        cx = dtwh.claim(stats, facts, z3.BoolVal(True), mode, syms, m, lemmas='unary')
                        if cx not in (None, 'unknown'):
                            cx['soft'] = True
                            cexs.append(cx)
                        continue
                    raise p2.exc
                neg = engines_differ(p1.result, p2.result, sq)
                m = dict(meta, claim='C engine and Python engine return the same distance')
                cx = dtwh.claim(stats, facts, neg, mode, syms, m, lemmas='pairwise' if (o['md'] or o['prune'] or o['ub']) else 'unary')
                if cx == 'unknown':
                    incon += 1
                elif cx is not None:
                    cexs.append(cx)
                if sample is None and not pysym.is_inf(p1.result):
                    sample = {'harness': cfg['harness'], 'r': r, 'c': c, 'options': jnum(o),
                              'python_result': str(p1.result)[:200], 'c_result': str(p2.result)[:200],
                              'query': 'pc_python /\\ pc_c /\\ python_result != c_result (unsat expected)'}
            truncated = truncated or ex2.truncated
            incon += ex2.inconclusive_paths
        truncated = truncated or ex1.truncated
        incon += ex1.inconclusive_paths
    return {'stats': stats.as_dict(), 'cex': cexs, 'inconclusive': incon, 'sample': sample, 'truncated': truncated,
            'monitor_events': monitors}


# --------------------------------------------------------------------------------------------------
def concrete(cex):
    from dtaidistance import dtw
    from engine import native
    import numpy as np
    inp = unj(cex['inputs'])
    o = _unopt(unj(cex['opts']))
    ndim = cex['ndim']
    innername = 'squared euclidean' if cex['inner'] == 'sq' else 'euclidean'
    s1, s2 = dtwh.fl(inp['s1']), dtwh.fl(inp['s2'])
    psi = o.get('psi')
    if isinstance(psi, (list, tuple)):
        psi = tuple(int(p) for p in psi)
    elif psi is not None:
        psi = int(psi)
    kw = {'window': None if o['window'] is None else int(o['window']), 'psi': psi, 'inner_dist': innername}
    if o['pen']:
        kw['penalty'] = float(inp['penalty'])
    if o['step']:
        kw['max_step'] = float(inp['max_step'])
    if o['md']:
        kw['max_dist'] = float(inp['max_dist'])
    if o['prune']:
        kw['use_pruning'] = True
    if o['mld'] is not None:
        kw['max_length_diff'] = int(o['mld'])
    pkw = dict(kw)
    if ndim > 1:
        pkw['use_ndim'] = True
        a1, a2 = np.array(s1, dtype=float), np.array(s2, dtype=float)
    else:
        a1, a2 = s1, s2
    try:
        py = dtw.distance(a1, a2, only_ub=bool(o['ub']), **pkw)
    except Exception as e:
        py = 'raised %s: %s' % (type(e).__name__, e)
    cs = dtwh.c_settings(dtw, only_ub=bool(o['ub']), **kw)
    cc = native.distance(s1, s2, cs, ndim=ndim)
    return py, cc


def replay(cex):
    py, cc = concrete(cex)
    if isinstance(py, str):
        return {'reproduced': True, 'observed': {'python': py, 'c': cc}, 'expected': 'both engines return the same value'}
    same = spec.close(py, cc) or (py != py and cc != cc)
    return {'reproduced': not same, 'observed': {'python': py, 'c': cc}, 'expected': 'equal'}
