"""C14 — k-NN subsequence search is exact despite lower bounds and early abandoning, for any call history."""
import itertools
import math

import z3

from engine import smt, pysym, spec, dtwh
from engine.pysym import SReal, Explorer
from engine.smt import ER
from engine.runner import jnum, unj, active_regions

ID = 'C14'
ENGINE = 'PYSYM'
TECHNIQUE = 'symbolic execution of SubsequenceSearch.align / kbest_matches / best_match (real heapq, lb_keogh and dtw.distance on symbolic series) for sequences of calls on one object; results compared by z3 with the exhaustive k-smallest oracle'
BUDGET = {'quick': 420, 'thorough': 1800}
SOURCES = ['src/dtaidistance/subsequence/subsequencesearch.py', 'src/dtaidistance/dtw.py']
FUNCTIONS = ['SubsequenceSearch.__init__/align/kbest_matches/best_match', 'SSMatches, SSMatch.distance/idx', 'dtw.lb_keogh', 'dtw.distance (max_dist)']
BOUNDS = {'quick': {'query length': '1..2', 'candidates': '1..2 of length 1..2 (3 candidates: single calls, query length 1)', 'k': '1..n+1, None', 'max_dist': 'None | symbolic', 'use_lb': 'T/F',
                    'window': 'None, 1', 'penalty': 'None | symbolic', 'call sequences': 'length 1..2'},
          'thorough': {'query length': '1..2', 'candidates': '1..3 of length 1..3', 'call sequences': 'length 1..3'}}
OUTSIDE = ['use_c=True (the C kernel is tied to the Python one by C02/C03; the Cython glue is not reachable)', 'multivariate series (use_lb is disabled there by the code)',
           'floating point rounding, ties are compared on the distance values only']
ASSUMPTIONS = ['exhaustive distance = spec_dtw oracle (C01)', 'SQ/SQRT abstractions with pairwise monotonicity lemmas; sat answers refined and replayed']
RULE = ('configuration = (query length, candidate lengths, options, use_lb, sequence of k values); all series values, penalty and max_dist symbolic; '
        'one query per claim and execution path.')
EXPLANATION = 'bounded symbolic model checking of the k-NN search incl. call histories, solver = z3'

P, Mx = z3.Real('P'), z3.Real('M')


def tasks(tier, seed):
    ts = []
    ncand = 2 if tier == 'quick' else 3
    maxlen = 2 if tier == 'quick' else 3
    shapes = [(1, [1]), (1, [2]), (1, [1, 1]), (1, [2, 1]), (1, [2, 2]), (1, [1, 1, 1]), (2, [2]), (2, [1, 1]), (2, [2, 1])]
    if tier == 'thorough':
        shapes += [(1, [2, 2, 2]), (2, [2, 2]), (2, [2, 2, 2]), (1, [3, 2]), (2, [3, 2]), (1, [1, 1, 1, 1])]
    for ql, lens in shapes:
        n = len(lens)
        ks = list(range(1, n + 2)) + [None]
        seqs = [[k] for k in ks]
        if n >= 2:
            seqs += [[n, 1], [1, n], [None, 1], [1, None], [2, None], [n + 1, 1], [1, 2]]
        if tier == 'thorough' and n >= 2:
            seqs += [[a, b] for a in ks for b in ks if a != b]
            seqs += [[1, n, None], [n, 1, 2], [None, 2, 1]]
        uniq = []
        for s_ in seqs:
            if s_ not in uniq:
                uniq.append(s_)
        for seq in uniq:
            for use_lb in (True, False):
                for md in (False, True):
                    for opt in ({}, {'window': 1}, {'pen': True}):
                        if opt and (len(seq) > 1 or not use_lb or sum(lens) > 3):
                            continue
                        ts.append({'harness': 'search', 'ql': ql, 'lens': lens, 'seq': jnum(seq), 'use_lb': use_lb, 'md': md, 'opt': opt,
                                   'est': (4 ** n) * (3 if md else 1) * len(seq) * sum(lens) * ql})
    for t in ts:
        t['tier'], t['seed'] = tier, seed
    ts.sort(key=lambda t: -t['est'])
    return ts


def oracle(qv, cands, window, pen):
    out = []
    for cv in cands:
        D = [[pysym.square_term(a - b) for b in cv] for a in qv]
        out.append(spec.spec_dtw(D, len(qv), len(cv), window, pysym.square_term(P) if pen else 0, None))
    return out


def run_task(cfg):
    dtw, innerdistance, ed = dtwh.load('dtw', 'innerdistance', 'ed')
    sub = dtwh.load('subsequence.subsequencesearch')
    import heapq
    stats = smt.Stats()
    cexs, incon, sample, trunc = [], 0, None, False
    ql, lens, seq, use_lb, md, opt = cfg['ql'], cfg['lens'], cfg['seq'], cfg['use_lb'], cfg['md'], cfg['opt']
    n = len(lens)
    qv = [z3.Real('q%d' % i) for i in range(ql)]
    cands = [[z3.Real('c%d_%d' % (i, j)) for j in range(lens[i])] for i in range(n)]
    query = [SReal(v) for v in qv]
    series = [[SReal(v) for v in cv] for cv in cands]
    assume = [P >= 0, Mx > 0]
    window = opt.get('window')
    pen = bool(opt.get('pen'))
    act = active_regions(ID)
    E = oracle(qv, cands, window, pen)
    thr = pysym.square_term(Mx) if md else None
    syms = {'P': P if pen else None, 'M': Mx if md else None}
    for v in qv:
        syms[str(v)] = v
    for cv in cands:
        for v in cv:
            syms[str(v)] = v
    meta = {'harness': 'search', 'ql': ql, 'lens': lens, 'seq': jnum(seq), 'use_lb': use_lb, 'md': md, 'opt': opt}

    def run():
        dopts = {}
        if window is not None:
            dopts['window'] = window
        if pen:
            dopts['penalty'] = SReal(P)
        ss = sub.SubsequenceSearch(list(query), [list(s_) for s_ in series], dists_options=dopts, use_lb=use_lb,
                                   max_dist=SReal(Mx) if md else None, use_ndim=False)
        outs = []
        for k in seq:
            if k == 1 and len(seq) > 1 and seq.index(k) % 2 == 1:
                m = ss.best_match()
                try:
                    outs.append([(m.distance, m.idx)])
                except IndexError:
                    outs.append([])        # no candidate within max_dist: the best match does not exist
            else:
                ms = ss.kbest_matches(k=k)
                outs.append([(m.distance, m.idx) for m in ms])
        return outs
    ex = Explorer(assume, max_paths=3000, stats=stats, pairwise=True)
    for p in ex.explore(run):
        facts = assume + p.facts()
        if p.exc is not None:
            if isinstance(p.exc, (pysym.Realised, NotImplementedError)):
                incon += 1
                continue
            cx = dtwh.claim(stats, facts, z3.BoolVal(True), None, syms, dict(meta, claim='search raises %s' % type(p.exc).__name__))
            if cx not in (None, 'unknown'):
                cexs.append(cx)
            continue
        for ci, (k, res) in enumerate(zip(seq, p.result)):
            bad = []
            vals = []
            for (d, idx) in res:
                idx = int(idx)
                if pysym.is_inf(d) or (isinstance(d, float) and math.isinf(d)):
                    vals.append((ER.infinity(), idx))
                elif isinstance(d, SReal):
                    t = d.t
                    if z3.is_app(t) and t.decl().name() == 'SQRT':
                        vals.append((ER(t.arg(0)), idx))
                    else:
                        vals.append((ER(pysym.square_term(t)), idx))
                else:
                    vals.append((ER(smt.rv(d) * smt.rv(d)), idx))
            idxs = [i for _, i in vals]
            if len(set(idxs)) != len(idxs) or any(not (0 <= i < n) for i in idxs):
                bad.append(z3.BoolVal(True))
            # each returned distance is the exhaustive distance of its index (or inf iff above the threshold, k=None)
            for (v, i) in vals:
                if v.inf is True:
                    if k is None and thr is not None and 'F14-lb-none' not in act:
                        bad.append(z3.And(z3.Not(smt._b(E[i].inf)), E[i].val < thr))
                    elif k is None and thr is not None:
                        bad.append(z3.And(z3.Not(smt._b(E[i].inf)), E[i].val < thr))
                    else:
                        bad.append(z3.BoolVal(True))
                else:
                    bad.append(smt.er_neq(v, E[i]))
                    if thr is not None:
                        bad.append(v.val > thr)
            # ascending
            for (a, _), (b, _) in zip(vals, vals[1:]):
                bad.append(z3.Not(smt.er_le(a, b)))
            if k is None:
                if len(vals) != n:
                    bad.append(z3.BoolVal(True))
            else:
                # exactly the k smallest admissible distances: count of admissible candidates
                adm = [z3.And(z3.Not(smt._b(e.inf)), (e.val <= thr) if thr is not None else z3.BoolVal(True)) for e in E]
                cnt = z3.Sum([z3.If(a, 1, 0) for a in adm])
                want_len = z3.If(cnt < k, cnt, k)
                # values strictly below the threshold are unambiguous; exactly-at-threshold is a rounding-width case
                if thr is not None:
                    strict = [z3.And(z3.Not(smt._b(e.inf)), e.val < thr) for e in E]
                    cnt_s = z3.Sum([z3.If(a, 1, 0) for a in strict])
                    bad.append(z3.And(len(vals) != z3.If(cnt < k, cnt, k), len(vals) != z3.If(cnt_s < k, cnt_s, k)))
                else:
                    bad.append(len(vals) != want_len)
                # every non-returned candidate is at least as far as the largest returned one (when k were returned)
                if len(vals) == k and vals:
                    last = vals[-1][0]
                    for i in range(n):
                        if i not in idxs:
                            bad.append(z3.Not(smt.er_le(last, E[i])))
            cl = 'call %d of the sequence (k=%s) returns exactly the k smallest exhaustive distances in ascending order' % (ci + 1, k)
            cx = dtwh.claim(stats, facts, z3.Or(*bad) if bad else z3.BoolVal(False), None, syms, dict(meta, claim=cl, call=ci), lemmas='pairwise')
            if cx == 'unknown':
                incon += 1
            elif cx is not None:
                cx['kind'] = 'series'
                cexs.append(cx)
        if sample is None:
            sample = {'harness': 'search', 'query_len': ql, 'candidate_lens': lens, 'k_sequence': jnum(seq), 'use_lb': use_lb,
                      'max_dist': 'symbolic' if md else None, 'returned': [[(str(d)[:40], int(i)) for d, i in r] for r in p.result][:2]}
    trunc = ex.truncated
    incon += ex.inconclusive_paths
    return {'stats': stats.as_dict(), 'cex': cexs, 'inconclusive': incon, 'sample': sample, 'truncated': trunc}


# --------------------------------------------------------------------------------------------------
def replay(cex):
    from dtaidistance.subsequence.subsequencesearch import SubsequenceSearch
    from dtaidistance import dtw
    import numpy as np
    inp = unj(cex['inputs'])
    ql, lens, seq, use_lb, md, opt = cex['ql'], cex['lens'], cex['seq'], cex['use_lb'], cex['md'], cex['opt']
    n = len(lens)
    q = np.array([float(inp['q%d' % i]) for i in range(ql)])
    cands = [np.array([float(inp['c%d_%d' % (i, j)]) for j in range(lens[i])]) for i in range(n)]
    dopts = {}
    if opt.get('window') is not None:
        dopts['window'] = opt['window']
    if opt.get('pen'):
        dopts['penalty'] = float(inp['P'])
    m = float(inp['M']) if md else None
    exact = [dtw.distance(q, c, **dopts) for c in cands]
    try:
        ss = SubsequenceSearch(q, cands, dists_options=dict(dopts), use_lb=use_lb, max_dist=m, use_ndim=False)
        outs = []
        for k in seq:
            if k == 1 and len(seq) > 1 and seq.index(k) % 2 == 1:
                mm = ss.best_match()
                try:
                    outs.append([(mm.distance, mm.idx)])
                except IndexError:
                    outs.append([])
            else:
                outs.append([(mm.distance, mm.idx) for mm in ss.kbest_matches(k=k)])
    except Exception as e:
        return {'reproduced': 'raises' in cex['claim'], 'observed': 'raised %r' % (e,)}
    ci = cex.get('call', 0)
    k, res = seq[ci], outs[ci]
    adm = [d for d in exact if (m is None or d <= m * (1 + 1e-9))]
    near = m is not None and any(abs(d - m) <= 1e-9 * max(1.0, m) for d in exact)
    if near:
        return {'reproduced': False, 'observed': 'a distance lies within rounding width of max_dist: outside the claim'}
    if k is None:
        want = sorted([(d if (m is None or d <= m) else float('inf')) for d in exact])
        got = sorted(float(d) for d, _ in res)
        ok = len(got) == n and all(spec.close(a, b) for a, b in zip(got, want)) and \
            all(spec.close(float(d), exact[int(i)]) or (math.isinf(float(d)) and m is not None and exact[int(i)] > m) for d, i in res)
    else:
        want = sorted(adm)[:k]
        got = [float(d) for d, _ in res]
        ok = len(got) == len(want) and all(spec.close(a, b) for a, b in zip(got, want)) and \
            all(spec.close(float(d), exact[int(i)]) for d, i in res)
    return {'reproduced': not ok, 'observed': [[float(d), int(i)] for d, i in res], 'expected': {'k': k, 'distances': want, 'exhaustive': exact}}
