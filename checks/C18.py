"""C18 — the affinity (local-concurrence) matrix follows its recurrence in both engines; traced matches are consistent."""
import itertools
import math
from fractions import Fraction

import z3

from engine import smt, pysym, spec, dtwh
from engine.pysym import SReal, Explorer
from engine.smt import ER, INF
from engine.runner import jnum, unj, active_regions

ID = 'C18'
ENGINE = 'PYSYM + IRSYM'
TECHNIQUE = 'symbolic execution of dtw.warping_paths_affinity and of the C affinity kernels / expansion (LLVM IR) with exp as an uninterpreted monotone function and symbolic tau, delta, penalty; every in-band cell is compared by z3 with the documented recurrence and across engines; LocalConcurrences matches are checked per execution path'
BUDGET = {'quick': 420, 'thorough': 1800}
SOURCES = ['src/dtaidistance/dtw.py', 'src/dtaidistance/subsequence/localconcurrences.py', 'src/DTAIDistanceC/DTAIDistanceC/dd_dtw.c']
FUNCTIONS = ['dtw.warping_paths_affinity', 'dd_dtw.c dtw_warping_paths_affinity(_ndim), dtw_expand_wps_affinity, dtw_expand_wps_slice_affinity',
             'LocalConcurrences.align / kbest_matches / best_path (Python, masked arrays)']
BOUNDS = {'quick': {'r,c': '1..3', 'window': 'None, 1, 2', 'gamma': '1, 1/2', 'tau, delta, penalty': 'symbolic (tau >= 0, delta <= 0, penalty >= 0 | None)',
                    'delta_factor': '1, 1/2', 'only_triu': 'T/F (r = c)', 'k': '1..2'},
          'thorough': {'r,c': '1..4', 'window': 'None, 1, 2, 3', 'k': '1..3'}}
OUTSIDE = ['estimate_settings*', 'symbolic gamma / delta_factor (products of two symbolic values)', 'positive buffer with the compact representation (the code raises)',
           'psi relaxation of the affinity matrix', 'the Cython glue']
ASSUMPTIONS = ['exp uninterpreted with monotonicity lemmas', 'recurrence oracle: cell = max(0, a + best) if a >= tau else max(0, delta + delta_factor * best), best = max(diag, up - penalty, left - penalty), a = exp(-gamma * diff^2)']
RULE = ('configuration = (engine, r, c, window, gamma, delta_factor, penalty on/off, only_triu); series, tau, delta, penalty symbolic; one query per execution path (d < tau forks).')
EXPLANATION = 'bounded symbolic model checking of the affinity recurrence, solver = z3'

P, TAU, DELTA = z3.Real('P'), z3.Real('tau'), z3.Real('delta')
NEG = float('-inf')


def prepare(tier):
    from engine import irsym
    irsym.prepare()


def tasks(tier, seed):
    nmax = 3 if tier == 'quick' else 4
    ts = []
    for r in range(1, nmax + 1):
        for c in range(1, nmax + 1):
            for eng in ('py', 'c'):
                ts.append({'harness': eng + '/affinity', 'eng': eng, 'r': r, 'c': c, 'est': 2 ** (r * c) * (3 if eng == 'c' else 1)})
    # longer series with a narrow window: the shifted regions of the compact layout exist; tau = 0 keeps this a single path
    for r, c in ((5, 5), (6, 6), (6, 5), (5, 6)) + (((7, 7), (8, 7)) if tier == 'thorough' else ()):
        ts.append({'harness': 'c/affinity', 'eng': 'c', 'r': r, 'c': c, 'narrow': True, 'est': 500})
    for r in range(2, (3 if tier == 'quick' else 4) + 1):
        ts.append({'harness': 'py/localconcurrences', 'eng': 'lc', 'r': r, 'c': r, 'est': 5 ** r})
    for t in ts:
        t['tier'], t['seed'] = tier, seed
    ts.sort(key=lambda t: -t['est'])
    return ts


def oracle(a, b, r, c, window, gamma, df, pen, only_triu, TAU=TAU, DELTA=DELTA):
    """matrix of (kind, term): kind in 'ninf' | 'val'"""
    inb = spec.band_fn(r, c, window)
    W = [[('ninf', None)] * (c + 1) for _ in range(r + 1)]
    W[0][0] = ('val', smt.rv(0))
    aff = {}
    for i in range(r):
        for j in range(c):
            if not inb(i, j) or (only_triu and j < i):
                continue
            e = pysym.exp_term(-smt.rv(gamma) * pysym.square_term(a[i] - b[j]))
            aff[(i, j)] = e
            preds = []
            for (k, t_), p_ in (((i, j), 0), ((i, j + 1), pen), ((i + 1, j), pen)):
                kind, t = W[k][t_]
                if kind == 'val':
                    preds.append(t - p_ if not isinstance(p_, int) or p_ != 0 else t)
            if not preds:
                W[i + 1][j + 1] = ('ninf', None)      # max over -inf predecessors stays -inf; clipping at 0 gives 0
                best = None
            else:
                best = preds[0]
                for t in preds[1:]:
                    best = smt.zmax(best, t)
            if best is None:
                W[i + 1][j + 1] = ('val', smt.rv(0))
            else:
                v = z3.If(e < TAU, smt.zmax(smt.rv(0), DELTA + smt.rv(df) * best), smt.zmax(smt.rv(0), e + best))
                W[i + 1][j + 1] = ('val', v)
    return W


def _cell(v):
    if isinstance(v, SReal):
        return ('val', v.t)
    if isinstance(v, z3.ExprRef):
        return ('val', v)
    if v is None:
        return ('unset', None)
    if isinstance(v, float) and math.isinf(v):
        return ('ninf', None) if v < 0 else ('pinf', None)
    return ('val', smt.rv(v))


def run_task(cfg):
    dtw, innerdistance, ed = dtwh.load('dtw', 'innerdistance', 'ed')
    np = pysym._np()
    eng, r, c, tier = cfg['eng'], cfg['r'], cfg['c'], cfg['tier']
    stats = smt.Stats()
    cexs, incon, sample = [], 0, None
    act = active_regions(ID)
    a = [z3.Real('a%d' % i) for i in range(r)]
    b = [z3.Real('b%d' % j) for j in range(c)]
    syms = {str(x): x for x in a + b}
    assume = [P >= 0, TAU >= 0, DELTA <= 0]

    def check(facts, neg, claim, meta, sy):
        nonlocal incon
        cx = dtwh.claim(stats, facts, neg, None, sy, dict(meta, claim=claim), lemmas='pairwise', refine=False)
        if cx == 'unknown':
            incon += 1
        elif cx is not None:
            cx['kind'] = 'series'
            cexs.append(cx)

    if eng == 'lc':
        return _localconc(cfg, stats)
    irmod = None
    if eng == 'c':
        from engine import irsym, ckern
        irmod = irsym.module()
    wins = [None, 1, 2] + ([3] if tier == 'thorough' else [])
    tau_t, delta_t = TAU, DELTA
    if cfg.get('narrow'):
        wins = [2, 3]
        tau_t, delta_t = 0.0, 0.0
    for w in wins:
        if w is not None and w > max(r, c):
            continue
        for gamma, df in ((1, 1), (0.5, 0.5)):
            for pen in (False, True):
                for triu in ((False, True) if r == c else (False,)):
                    if eng == 'c' and w is not None and w < max(r, c) and abs(r - c) + 2 * w + 1 >= c + 1 and 'F18-c-clamped-width' in act:
                        continue
                    if eng == 'py' and not pen and 'F18-py-penalty-none' in act:
                        continue
                    o = {'window': w, 'gamma': gamma, 'df': df, 'pen': pen, 'triu': triu}
                    meta = {'harness': cfg['harness'], 'eng': eng, 'r': r, 'c': c, 'opts': jnum(o)}
                    sy = dict(syms, tau=None if cfg.get('narrow') else TAU, delta=None if cfg.get('narrow') else DELTA, P=P if pen else None)
                    W = oracle(a, b, r, c, w, gamma, df, P if pen else 0, triu, TAU=(TAU if not cfg.get('narrow') else smt.rv(0)), DELTA=(DELTA if not cfg.get('narrow') else smt.rv(0)))
                    s1 = pysym.objarray([SReal(x) for x in a])
                    s2 = pysym.objarray([SReal(x) for x in b])
                    if eng == 'py':
                        def run():
                            d, m = dtw.warping_paths_affinity(s1, s2, window=w, only_triu=triu, penalty=SReal(P) if pen else None, psi=None, psi_neg=False,
                                                              gamma=gamma, tau=SReal(TAU), delta=SReal(DELTA), delta_factor=df)
                            return [[m[i, j] for j in range(m.shape[1])] for i in range(m.shape[0])]
                    else:
                        mode = dtwh.SeriesMode(r, c, 'squared euclidean')
                        mode.a, mode.b = a, b

                        def run():
                            from engine import ckern
                            cs = {'window': 0 if w is None else w}
                            if pen:
                                cs['penalty'] = P
                            wp = ckern.warping_paths(irmod, mode, cs, keep_int_repr=True, psi_neg=False, fill=NEG,
                                                     affinity=(triu, float(gamma), tau_t, delta_t, float(df)))
                            return ckern.full_matrix(wp, affinity=True)
                    ex = Explorer(assume, max_paths=1500, stats=stats)
                    for p in ex.explore(run):
                        facts = assume + p.facts()
                        if p.exc is not None:
                            if eng == 'c':
                                from engine import irsym
                                if isinstance(p.exc, irsym.Violation):
                                    continue
                                raise p.exc
                            check(facts, z3.BoolVal(True), 'warping_paths_affinity raises %s: %s' % (type(p.exc).__name__, str(p.exc)[:60]), meta, sy)
                            continue
                        m = p.result
                        bad = []
                        inb = spec.band_fn(r, c, w)
                        for i in range(r):
                            for j in range(c):
                                kind, t = _cell(m[i + 1][j + 1])
                                wk, wt = W[i + 1][j + 1]
                                excluded = (not inb(i, j)) or (triu and j < i)
                                if excluded:
                                    if kind == 'val':
                                        # excluded cells must not carry a positive affinity
                                        bad.append(t > 0)
                                    continue
                                if kind != 'val':
                                    bad.append(z3.BoolVal(True))
                                else:
                                    bad.append(t != wt)
                        check(facts, z3.Or(*bad) if bad else z3.BoolVal(False), 'every in-band cell follows the affinity recurrence; excluded cells carry no affinity', meta, sy)
                        if sample is None:
                            sample = {'harness': cfg['harness'], 'r': r, 'c': c, 'options': jnum(o), 'cell_1_1': str(m[1][1])[:100]}
                    incon += ex.inconclusive_paths
    return {'stats': stats.as_dict(), 'cex': cexs, 'inconclusive': incon, 'sample': sample}


def _localconc(cfg, stats):
    """LocalConcurrences (Python, self comparison): traced matches are contiguous monotone paths through positive cells, no cell reused"""
    lc = dtwh.load('subsequence.localconcurrences')
    dtw = dtwh.load('dtw')
    np = pysym._np()
    r = cfg['r']
    a = [z3.Real('a%d' % i) for i in range(r)]
    syms = {str(x): x for x in a}
    assume = []
    cexs, incon, sample = [], 0, None
    kmax = 2 if cfg['tier'] == 'quick' else 3
    s1 = pysym.objarray([SReal(x) for x in a])
    meta = {'harness': cfg['harness'], 'eng': 'lc', 'r': r, 'c': r}

    def run():
        obj = lc.LocalConcurrences(s1, None, gamma=1, tau=0.3, delta=-0.1, delta_factor=0.5, only_triu=True, penalty=0.05, window=None, use_c=False)
        obj.align()
        out = []
        for m in obj.kbest_matches(k=kmax, minlen=1, buffer=0):
            if m is None:
                break
            out.append([(int(x), int(y)) for x, y in m.path])
        wp = obj.wp
        cells = {}
        return out
    ex = Explorer(assume, max_paths=2500, stats=stats, pairwise=True)
    for p in ex.explore(run):
        stats.queries += 1
        facts = assume + p.facts()
        if p.exc is not None:
            if isinstance(p.exc, (pysym.Realised, NotImplementedError, TypeError, AttributeError)):
                incon += 1
                continue
            cexs.append(dict(meta, claim='LocalConcurrences raises %s: %s' % (type(p.exc).__name__, str(p.exc)[:80]), inputs={}, soft=True))
            stats.sat += 1
            continue
        used = set()
        bad = None
        for path in p.result:
            for (x, y), (x2, y2) in zip(path, path[1:]):
                if (x2 - x, y2 - y) not in ((1, 1), (1, 0), (0, 1)):
                    bad = 'match %r is not a contiguous monotone path' % (path,)
            for cell in path:
                if cell in used:
                    bad = 'cell %r is used by two matches' % (cell,)
                used.add(cell)
        if bad:
            s = z3.Solver()
            s.add(*facts)
            vals = {}
            if s.check() == z3.sat:
                vals = {k: smt.model_val(s.model(), v) for k, v in syms.items()}
            cexs.append(dict(meta, claim='local-concurrence matches are contiguous monotone paths that never reuse a cell (%s)' % bad[:100], inputs=vals, kind='series'))
            stats.sat += 1
        else:
            stats.unsat += 1
            stats.nontrivial += 1
        if sample is None and p.result:
            sample = {'harness': cfg['harness'], 'r': r, 'matches': p.result[:2]}
    incon += ex.inconclusive_paths
    return {'stats': stats.as_dict(), 'cex': cexs[:6], 'inconclusive': incon, 'sample': sample, 'truncated': ex.truncated}


# --------------------------------------------------------------------------------------------------
def conc_oracle(a, b, window, gamma, tau, delta, df, pen, triu):
    r, c = len(a), len(b)
    inb = spec.band_fn(r, c, window)
    W = [[NEG] * (c + 1) for _ in range(r + 1)]
    W[0][0] = 0.0
    for i in range(r):
        for j in range(c):
            if not inb(i, j) or (triu and j < i):
                continue
            e = math.exp(-gamma * (a[i] - b[j]) ** 2)
            best = max(W[i][j], W[i][j + 1] - pen, W[i + 1][j] - pen)
            W[i + 1][j + 1] = max(0.0, delta + df * best) if e < tau else max(0.0, e + best)
    return W


def replay(cex):
    from dtaidistance import dtw
    import numpy as np
    inp = unj(cex['inputs'])
    r, c, eng = cex['r'], cex['c'], cex['eng']
    if eng == 'lc':
        from dtaidistance.subsequence.localconcurrences import LocalConcurrences
        s = np.array([float(inp.get('a%d' % i, 0)) for i in range(r)])
        try:
            obj = LocalConcurrences(s, None, gamma=1, tau=0.3, delta=-0.1, delta_factor=0.5, only_triu=True, penalty=0.05, window=None, use_c=False)
            obj.align()
            used, bad = set(), None
            for m in obj.kbest_matches(k=3, minlen=1, buffer=0):
                if m is None:
                    break
                path = [(int(x), int(y)) for x, y in m.path]
                for (x, y), (x2, y2) in zip(path, path[1:]):
                    if (x2 - x, y2 - y) not in ((1, 1), (1, 0), (0, 1)):
                        bad = 'not contiguous'
                for cell in path:
                    if cell in used:
                        bad = 'cell reused'
                    used.add(cell)
            return {'reproduced': bad is not None, 'observed': bad}
        except Exception as e:
            return {'reproduced': 'raises' in cex['claim'], 'observed': 'raised %r' % (e,)}
    o = unj(cex['opts'])
    a = [float(inp['a%d' % i]) for i in range(r)]
    b = [float(inp['b%d' % j]) for j in range(c)]
    w = None if o['window'] is None else int(o['window'])
    gamma, df = float(o['gamma']), float(o['df'])
    tau, delta = float(inp.get('tau', 0) or 0), float(inp.get('delta', 0) or 0)
    pen = float(inp['P']) if o['pen'] else None
    triu = bool(o['triu'])
    try:
        if eng == 'py':
            d, m = dtw.warping_paths_affinity(np.array(a), np.array(b), window=w, only_triu=triu, penalty=pen, psi=None, psi_neg=False, gamma=gamma, tau=tau,
                                              delta=delta, delta_factor=df)
            m = np.asarray(m)
        else:
            from engine import native
            import ctypes
            L = native.lib()
            D, I, B = ctypes.c_double, ctypes.c_ssize_t, ctypes.c_bool
            L.dtw_warping_paths_affinity.restype = D
            L.dtw_warping_paths_affinity.argtypes = [native.c_double_p, native.c_double_p, I, native.c_double_p, I, B, B, B, B, D, D, D, D, ctypes.POINTER(native.CSettings)]
            L.dtw_expand_wps_affinity.restype = None
            L.dtw_expand_wps_affinity.argtypes = [native.c_double_p, native.c_double_p, I, I, ctypes.POINTER(native.CSettings)]
            st = native.settings({'window': 0 if w is None else w, 'penalty': pen or 0.0})
            length = L.dtw_settings_wps_length(r, c, ctypes.byref(st))
            width = L.dtw_settings_wps_width(r, c, ctypes.byref(st))
            buf = native.Fenced(n=length, fill=NEG)
            fa, fb = native.Fenced(a), native.Fenced(b)
            L.dtw_warping_paths_affinity(buf.ptr, fa.ptr, r, fb.ptr, c, True, True, False, triu, gamma, tau, delta, df, ctypes.byref(st))
            if width == c + 1:
                m = np.array(buf.values()).reshape(r + 1, c + 1)
            else:
                full = native.Fenced(n=(r + 1) * (c + 1), fill=-7.0)
                L.dtw_expand_wps_affinity(buf.ptr, full.ptr, r, c, ctypes.byref(st))
                m = np.array(full.values()).reshape(r + 1, c + 1)
    except Exception as e:
        return {'reproduced': 'raises' in cex['claim'], 'observed': 'raised %r' % (e,)}
    W = conc_oracle(a, b, w, gamma, tau, delta, df, pen or 0.0, triu)
    inb = spec.band_fn(r, c, w)
    for i in range(r):
        for j in range(c):
            v, wv = float(m[i + 1, j + 1]), W[i + 1][j + 1]
            excluded = (not inb(i, j)) or (triu and j < i)
            if excluded:
                if v > 1e-12:
                    return {'reproduced': True, 'observed': {'cell': [i + 1, j + 1], 'value': v}, 'expected': 'no affinity (excluded cell)'}
                continue
            near_tau = abs(math.exp(-gamma * (a[i] - b[j]) ** 2) - tau) < 1e-9
            if not spec.close(v, wv) and not near_tau:
                return {'reproduced': True, 'observed': {'cell': [i + 1, j + 1], 'value': v}, 'expected': wv}
    return {'reproduced': False, 'observed': 'matrix follows the recurrence'}
