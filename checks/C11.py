"""C11 — multivariate DTW is DTW with vector point distances, in both engines."""
import math
import random

import z3

from engine import smt, pysym, spec, dtwh
from engine.pysym import SReal, Explorer
from engine.smt import ER, INF
from engine.runner import jnum, unj, active_regions

ID = 'C11'
ENGINE = 'PYSYM + IRSYM'
TECHNIQUE = 'symbolic execution of dtw_ndim.distance / warping_paths / warping_path / distance_matrix / ub_euclidean on object arrays of symbolic vectors and of the C _ndim kernels (LLVM IR); z3 queries against the vector-distance DTW oracle, the univariate routine (d=1) and across engines'
BUDGET = {'quick': 420, 'thorough': 3000}
SOURCES = ['src/dtaidistance/dtw_ndim.py', 'src/dtaidistance/dtw.py', 'src/dtaidistance/innerdistance.py', 'src/dtaidistance/ed.py', 'src/dtaidistance/util.py',
           'src/DTAIDistanceC/DTAIDistanceC/dd_dtw.c', 'src/DTAIDistanceC/DTAIDistanceC/dd_ed.c']
FUNCTIONS = ['dtw_ndim.distance, warping_paths, warping_path, distance_matrix, ub_euclidean', 'innerdistance.SquaredEuclideanNdim, EuclideanNdim',
             'util.SeriesContainer (list of 2-D arrays, 3-D array)', 'dd_dtw.c dtw_distance_ndim(_euclidean), dtw_warping_paths_ndim(_euclidean), ub_euclidean_ndim*',
             'dd_ed.c euclidean_distance_ndim*']
BOUNDS = {'quick': {'d': '1..2 (C kernels also 3 at 2x2)', 'r,c': '1..3', 'window': 'None,1,2', 'penalty': 'None|symbolic', 'psi': 'None, 1', 'pruning / max_dist': 'r*c <= 6'},
          'thorough': {'d': '1..4 (C: 1..3)', 'r,c': '1..4 (d <= 2), 1..2 (d >= 3)', 'window': 'all', 'penalty': 'None|symbolic', 'psi': 'None, 1', 'pruning / max_dist': 'r*c <= 9'}}
OUTSIDE = ['typed memoryview / container handling of the Cython layer', 'floating point rounding', 'sizes above the bound']
ASSUMPTIONS = ['oracle: spec_dtw with D[i][j] = sum_k SQ(a[i,k]-b[j,k]) (resp. its square root)', 'SQ/SQRT abstractions with lemmas; sat answers refined and replayed']
RULE = ('configuration = (claim family, engine, inner distance, d, r, c, options); all vector components symbolic; one query per claim and (joint) execution path.')
EXPLANATION = 'bounded symbolic model checking of the multivariate routines, solver = z3'

P, Mx = z3.Real('P'), z3.Real('M')


def prepare(tier):
    from engine import irsym
    irsym.prepare()


def tasks(tier, seed):
    ts = []
    dims = (1, 2) if tier == 'quick' else (1, 2, 3, 4)
    for d in dims:
        for inner in ('sq', 'abs'):
            rmax = 3 if tier == 'quick' else 4
            for r in range(1, rmax + 1):
                for c in range(1, rmax + 1):
                    if (d >= 3 and r * c > 4) or (r * c > 9 and d > 2):
                        continue
                    ts.append({'harness': 'py/distance', 'fam': 'pydist', 'd': d, 'inner': inner, 'r': r, 'c': c, 'est': r * c * d * 8})
                    if inner == 'sq':
                        ts.append({'harness': 'py/wps+path', 'fam': 'pywps', 'd': d, 'inner': inner, 'r': r, 'c': c, 'est': 3 ** (r + c) * d})
                    if d <= 3:
                        ts.append({'harness': 'c/kernels', 'fam': 'ckern', 'd': d, 'inner': inner, 'r': r, 'c': c, 'est': r * c * d * 20})
    for d in (1, 2):
        for n in (2, 3):
            ts.append({'harness': 'py/distance_matrix', 'fam': 'pymat', 'd': d, 'n': n, 'est': n * n * d * 10})
    if tier == 'quick':
        ts.append({'harness': 'c/kernels', 'fam': 'ckern', 'd': 3, 'inner': 'sq', 'r': 2, 'c': 2, 'est': 200})
    for t in ts:
        t['tier'], t['seed'] = tier, seed
    ts.sort(key=lambda t: -t['est'])
    return ts


def _opts(r, c, tier, forks):
    out = []
    wins = [None, 1, 2] if tier == 'quick' else dtwh.windows(r, c)
    for w in wins:
        for pen in (False, True):
            for psi in (None, 1):
                if psi == 1 and (spec.psi_degenerate(r, c, 1) or min(r, c) < 1):
                    continue
                out.append({'window': w, 'pen': pen, 'psi': psi, 'prune': False, 'md': False})
    if forks:
        for w in (None, 1):
            out.append({'window': w, 'pen': False, 'psi': None, 'prune': True, 'md': False})
            out.append({'window': w, 'pen': False, 'psi': None, 'prune': False, 'md': True})
    return out


def run_task(cfg):
    dtw, dtw_ndim, innerdistance, ed, util = dtwh.load('dtw', 'dtw_ndim', 'innerdistance', 'ed', 'util')
    np = pysym._np()
    fam, d, tier = cfg['fam'], cfg['d'], cfg['tier']
    stats = smt.Stats()
    st = {'cex': [], 'incon': 0, 'sample': None, 'trunc': False}

    def check(facts, neg, mode, syms, claim, meta, lemmas='unary'):
        cx = dtwh.claim(stats, facts, neg, mode, syms, dict(meta, claim=claim), lemmas=lemmas)
        if cx == 'unknown':
            st['incon'] += 1
        elif cx is not None:
            st['cex'].append(cx)
        if st['sample'] is None:
            st['sample'] = {'harness': cfg['harness'], 'd': d, 'claim': claim, 'config': {k: meta.get(k) for k in ('r', 'c', 'opts', 'n')}}

    if fam == 'pymat':
        n = cfg['n']
        lens = [2, 1, 2][:n]
        vars_ = [[[z3.Real('s%d_%d_%d' % (k, i, j)) for j in range(d)] for i in range(lens[k])] for k in range(n)]
        arrs = [pysym.objarray([[SReal(x) for x in row] for row in s_]) for s_ in vars_]
        syms = {str(x): x for s_ in vars_ for row in s_ for x in row}
        meta = {'harness': cfg['harness'], 'fam': fam, 'd': d, 'n': n, 'kind': 'series'}
        containers = {'list': list(arrs)}
        if len(set(lens)) == 1 or n == 2 and False:
            pass
        eq = [[[z3.Real('s%d_%d_%d' % (k, i, j)) for j in range(d)] for i in range(2)] for k in range(n)]
        arr3 = pysym.objarray([[[SReal(x) for x in row] for row in s_] for s_ in eq])
        for name, data, vv in (('list of 2-D arrays', list(arrs), vars_), ('3-D array', arr3, eq), ('SeriesContainer', util.SeriesContainer(list(arrs)), vars_)):
            for f1, _e, p1 in dtwh.py_paths(lambda: list(dtw_ndim.distance_matrix(data, ndim=d, compact=True, penalty=SReal(P))), None, [P >= 0], stats):
                if p1.exc is not None:
                    check(f1, z3.BoolVal(True), None, syms, 'dtw_ndim.distance_matrix(%s) raises %s' % (name, type(p1.exc).__name__), meta)
                    continue
                res = p1.result
                k = 0
                bad = [z3.BoolVal(len(res) != n * (n - 1) // 2)]
                for a in range(n):
                    for b in range(a + 1, n):
                        if k >= len(res):
                            break
                        ra, rb = len(vv[a]), len(vv[b])
                        D = [[sum(pysym.square_term(vv[a][i][x] - vv[b][j][x]) for x in range(d)) for j in range(rb)] for i in range(ra)]
                        want = spec.spec_dtw(D, ra, rb, None, pysym.square_term(P), None)
                        v = res[k]
                        got = ER.infinity() if pysym.is_inf(v) else ER(v.t.arg(0) if (isinstance(v, SReal) and z3.is_app(v.t) and v.t.decl().name() == 'SQRT') else pysym.square_term(v.t if isinstance(v, SReal) else smt.rv(v)))
                        bad.append(smt.er_neq(got, want))
                        k += 1
                check(f1, z3.Or(*bad), None, dict(syms, P=P), 'distance_matrix(%s) lists the pairwise multivariate DTW distances' % name, dict(meta, container=name))
        return {'stats': stats.as_dict(), 'cex': st['cex'], 'inconclusive': st['incon'], 'sample': st['sample']}

    r, c, inner = cfg['r'], cfg['c'], cfg['inner']
    innername = 'squared euclidean' if inner == 'sq' else 'euclidean'
    forks = r * c <= (6 if tier == 'quick' else 9)
    irmod = None
    if fam == 'ckern':
        from engine import irsym, ckern
        irmod = irsym.module()
    for o in _opts(r, c, tier, forks):
        mode = dtwh.SeriesMode(r, c, innername, ndim=max(d, 1)) if d > 1 else None
        if d == 1:
            # d = 1: (len x 1) arrays; the univariate routine on the flattened series is the reference
            m1 = dtwh.SeriesMode(r, c, innername, ndim=1)
            mode = dtwh.SeriesMode(r, c, innername, ndim=2)      # placeholder for variable bookkeeping
            mode.ndim = 1
            mode.a, mode.b = [[x] for x in m1.a], [[x] for x in m1.b]
            mode.s1 = pysym.objarray([[SReal(x)] for x in m1.a])
            mode.s2 = pysym.objarray([[SReal(x)] for x in m1.b])
            mode.D = m1.D
            mode.flat = m1
        assume = [P >= 0, Mx > 0]
        kw = {'window': o['window'], 'psi': o['psi'], 'inner_dist': innername}
        if o['pen']:
            kw['penalty'] = SReal(P)
        if o['prune']:
            kw['use_pruning'] = True
        if o['md']:
            kw['max_dist'] = SReal(Mx)
        syms = {'penalty': P if o['pen'] else None, 'max_dist': Mx if o['md'] else None}
        meta = {'harness': cfg['harness'], 'fam': fam, 'd': d, 'inner': inner, 'r': r, 'c': c, 'opts': jnum(o)}
        lem = 'pairwise' if (o['md'] or o['prune'] or inner == 'abs') else 'unary'
        final = spec.spec_dtw(mode.D, r, c, o['window'], mode.tr(P) if o['pen'] else 0, o['psi'])
        thr = mode.tr(Mx) if o['md'] else None

        def dist_claim(er):
            if thr is None:
                return smt.er_neq(er, final)
            if er.inf is True:
                return z3.And(z3.Not(smt._b(final.inf)), final.val < thr)
            return z3.Or(smt.er_neq(er, final), final.val > thr)
        if fam == 'pydist':
            for f1, e1, p1 in dtwh.py_paths(lambda: dtw_ndim.distance(mode.s1, mode.s2, **kw), mode, assume, stats, max_paths=2000):
                if e1 is None:
                    check(f1, z3.BoolVal(True), mode, syms, 'dtw_ndim.distance raises %s on a valid input' % type(p1.exc).__name__, meta)
                    continue
                check(f1, dist_claim(e1), mode, syms, 'dtw_ndim.distance = DTW with vector point distances', meta, lem)
                if d == 1 and not o['md'] and not o['prune']:
                    k1 = dict(kw)
                    for f2, e2, p2 in dtwh.py_paths(lambda: dtw.distance(mode.flat.s1, mode.flat.s2, **k1), mode, f1, stats):
                        if e2 is not None:
                            check(f2, smt.er_neq(e1, e2), mode, syms, 'd = 1: dtw_ndim.distance equals dtw.distance on the flattened series', meta, lem)
            if not o['md'] and not o['prune'] and o['psi'] is None and not o['pen'] and o['window'] is None:
                for f1, e1, p1 in dtwh.py_paths(lambda: dtw_ndim.ub_euclidean(mode.s1, mode.s2, inner_dist=innername), mode, [], stats):
                    if e1 is None:
                        check(f1, z3.BoolVal(True), mode, syms, 'dtw_ndim.ub_euclidean raises %s' % type(p1.exc).__name__, meta)
                        continue
                    tot = None
                    for i in range(max(r, c)):
                        t = mode.point(min(i, r - 1), min(i, c - 1)) if d > 1 else mode.D[min(i, r - 1)][min(i, c - 1)]
                        tot = t if tot is None else tot + t
                    check(f1, e1.val != tot, mode, syms, 'ub_euclidean = padded sum of vector point distances', meta, 'pairwise')
        elif fam == 'pywps':
            if o['md'] or o['prune']:
                continue
            W = spec.spec_matrix(mode.D, r, c, o['window'], mode.tr(P) if o['pen'] else 0, o['psi'])
            inb = spec.band_fn(r, c, o['window'])

            def run():
                dd, m = dtw_ndim.warping_paths(mode.s1, mode.s2, keep_int_repr=True, psi_neg=False, **kw)
                path = None
                if o['psi'] is None and not o['pen']:
                    path = dtw_ndim.warping_path(mode.s1, mode.s2, **kw)
                return dd, [[m[i, j] for j in range(m.shape[1])] for i in range(m.shape[0])], path
            ex = Explorer(assume, max_paths=2000, stats=stats)
            for p in ex.explore(run):
                f1 = assume + p.facts()
                if p.exc is not None:
                    check(f1, z3.BoolVal(True), mode, syms, 'dtw_ndim.warping_paths / warping_path raises %s' % type(p.exc).__name__, meta)
                    continue
                dd, m, path = p.result
                bad = []
                for i in range(r):
                    for j in range(c):
                        v = m[i + 1][j + 1]
                        got = ER.infinity() if pysym.is_inf(v) else ER(v.t if isinstance(v, SReal) else smt.rv(v))
                        if inb(i, j):
                            bad.append(smt.er_neq(got, W[i + 1][j + 1]))
                        elif got.inf is not True:
                            bad.append(z3.BoolVal(True))
                check(f1, z3.Or(*bad), mode, syms, 'multivariate cost matrix is cell-wise optimal', meta)
                if path is not None:
                    path = [(int(a), int(b)) for a, b in path]
                    ok, why = spec.valid_path(path, r, c, o['window'], None)
                    if not ok:
                        check(f1, z3.BoolVal(True), mode, syms, 'warping_path is a valid path (%s)' % why, meta)
                    else:
                        check(f1, smt.er_neq(ER(spec.path_cost(path, mode.D, 0)), final), mode, syms, 'warping_path achieves the multivariate distance', meta, 'pairwise')
            st['incon'] += ex.inconclusive_paths
        elif fam == 'ckern':
            from engine import irsym, ckern
            ckw = dict(kw)
            if d > 1 and not o['md'] and not o['prune'] and o['psi'] is None and not o['pen'] and o['window'] is None:
                # multivariate Euclidean upper bound: C = Python (used for pruning in both engines)
                ubf = 'ub_euclidean_ndim' + ('' if inner == 'sq' else '_euclidean')

                def ubrun():
                    M = irsym.Machine(irmod)
                    a = M.new_doubles('s1', dtwh.flat_terms(mode.a))
                    b = M.new_doubles('s2', dtwh.flat_terms(mode.b))
                    return M.run(ubf, [a, r, b, c, d])
                for f1, e1, p1 in dtwh.py_paths(lambda: dtw_ndim.ub_euclidean(mode.s1, mode.s2, inner_dist=innername), mode, [], stats):
                    if e1 is None:
                        continue
                    for f2, e2, p2 in dtwh.py_paths(ubrun, mode, f1, stats):
                        if e2 is None:
                            continue
                        check(f2, smt.er_neq(e1, e2), mode, syms, 'C %s = Python dtw_ndim.ub_euclidean' % ubf, dict(meta, routine='ub'), 'pairwise')
            for f1, e1, p1 in dtwh.c_paths(irmod, dtw, mode, ckw, assume, stats, max_paths=1500):
                if e1 is None:
                    if isinstance(p1.exc, irsym.Violation):
                        continue
                    raise p1.exc
                check(f1, dist_claim(e1), mode, syms, 'C dtw_distance_ndim = DTW with vector point distances', dict(meta, routine='distance'), lem)
            if not o['md'] and not o['prune']:
                W = spec.spec_matrix(mode.D, r, c, o['window'], mode.tr(P) if o['pen'] else 0, o['psi'])
                inb = spec.band_fn(r, c, o['window'])
                pp = spec.norm_psi(o['psi'])
                if (pp[1] or pp[3]) and (o['window'] is not None or r != c):
                    continue       # C04 known finding F04-c-psi-window
                if o['window'] is not None and o['window'] < max(r, c) and abs(r - c) + 2 * o['window'] + 1 >= c + 1:
                    continue       # C04 known finding F04-c-clamped-width

                def crun():
                    cs = dtwh.c_settings(dtw, **ckw)
                    w = ckern.warping_paths(irmod, mode, cs, keep_int_repr=True, psi_neg=False, fill=INF)
                    return ckern.full_matrix(w)
                ex = Explorer(assume, max_paths=500, stats=stats)
                for p in ex.explore(crun):
                    if p.exc is not None:
                        if isinstance(p.exc, irsym.Violation):
                            continue
                        raise p.exc
                    m = p.result
                    bad = []
                    for i in range(r):
                        for j in range(c):
                            v = m[i + 1][j + 1]
                            if v is None:
                                bad.append(z3.BoolVal(True))
                                continue
                            got = ER.infinity() if pysym.is_inf(v) else ER(v if isinstance(v, z3.ExprRef) else smt.rv(v))
                            if inb(i, j):
                                bad.append(smt.er_neq(got, W[i + 1][j + 1]))
                            elif got.inf is not True:
                                bad.append(z3.BoolVal(True))
                    check(assume + p.facts(), z3.Or(*bad), mode, syms, 'C multivariate cost matrix is cell-wise optimal', dict(meta, routine='wps'))
    return {'stats': stats.as_dict(), 'cex': st['cex'], 'inconclusive': st['incon'], 'sample': st['sample'], 'truncated': st['trunc']}


# --------------------------------------------------------------------------------------------------
def replay(cex):
    from dtaidistance import dtw, dtw_ndim
    import numpy as np
    from fractions import Fraction
    inp = unj(cex['inputs'])
    fam, d = cex['fam'], cex['d']
    claim = cex['claim']
    try:
        if fam == 'pymat':
            n = cex['n']
            cont = cex.get('container', 'list of 2-D arrays')
            lens = [2] * n if cont == '3-D array' else [2, 1, 2][:n]
            sers = [np.array([[float(inp.get('s%d_%d_%d' % (k, i, j), 0)) for j in range(d)] for i in range(lens[k])]) for k in range(n)]
            data = np.array(sers) if cont == '3-D array' else list(sers)
            pen = float(inp.get('P', 0))
            res = list(dtw_ndim.distance_matrix(data, ndim=d, compact=True, penalty=pen))
            want = []
            for a in range(n):
                for b in range(a + 1, n):
                    D = dtwh.conc_D('series', 'squared euclidean', {'s1': sers[a].tolist(), 's2': sers[b].tolist()})
                    want.append(math.sqrt(spec.conc_dtw(D, lens[a], lens[b], None, Fraction(pen) ** 2, None)))
            ok = len(res) == len(want) and all(spec.close(x, y) for x, y in zip(res, want))
            return {'reproduced': not ok, 'observed': [float(x) for x in res], 'expected': want}
        r, c, inner = cex['r'], cex['c'], cex['inner']
        o = unj(cex['opts'])
        innername = 'squared euclidean' if inner == 'sq' else 'euclidean'
        s1, s2 = dtwh.fl(inp['s1']), dtwh.fl(inp['s2'])
        a1, a2 = np.array(s1, dtype=float).reshape(r, -1), np.array(s2, dtype=float).reshape(c, -1)
        w = None if o['window'] is None else int(o['window'])
        psi = None if o['psi'] is None else int(o['psi'])
        kw = {'window': w, 'psi': psi, 'inner_dist': innername}
        pen = float(inp['penalty']) if o['pen'] else None
        if pen is not None:
            kw['penalty'] = pen
        if o['prune']:
            kw['use_pruning'] = True
        if o['md']:
            kw['max_dist'] = float(inp['max_dist'])
        D = dtwh.conc_D('series', innername, {'s1': a1.tolist(), 's2': a2.tolist()})
        penint = dtwh.conc_tr('series', innername, pen) or 0
        want_int = spec.conc_dtw(D, r, c, w, penint, psi)
        want = dtwh.conc_result('series', innername, want_int)
        if 'ub_euclidean' in claim and cex.get('routine') != 'ub':
            got = dtw_ndim.ub_euclidean(a1, a2, inner_dist=innername)
            tot = sum(D[min(i, r - 1)][min(i, c - 1)] for i in range(max(r, c)))
            return {'reproduced': not spec.close(got, dtwh.conc_result('series', innername, tot)), 'observed': got}
        if fam == 'pydist':
            got = dtw_ndim.distance(a1, a2, **kw)
            if 'flattened' in claim:
                g2 = dtw.distance(a1[:, 0], a2[:, 0], **kw)
                return {'reproduced': not spec.close(got, g2), 'observed': [got, g2]}
        elif fam == 'ckern' and cex.get('routine') == 'ub':
            from engine import native
            L = native.lib()
            fa, fb = native.Fenced(a1.flatten().tolist()), native.Fenced(a2.flatten().tolist())
            f = getattr(L, 'ub_euclidean_ndim' + ('' if inner == 'sq' else '_euclidean'))
            got = f(fa.ptr, r, fb.ptr, c, d)
            py = dtw_ndim.ub_euclidean(a1, a2, inner_dist=innername)
            return {'reproduced': not spec.close(got, py), 'observed': {'c': got, 'python': py}}
        elif fam == 'ckern' and cex.get('routine') == 'distance':
            from engine import native
            got = native.distance(a1.tolist() if d > 1 else a1[:, 0].tolist(), a2.tolist() if d > 1 else a2[:, 0].tolist(), dtwh.c_settings(dtw, **kw), ndim=d)
        elif fam in ('pywps', 'ckern'):
            if fam == 'pywps':
                dd, m = dtw_ndim.warping_paths(a1, a2, keep_int_repr=True, psi_neg=False, **kw)
                m = np.asarray(m)
            else:
                from engine import native
                import ctypes
                L = native.lib()
                stt = native.settings(dtwh.c_settings(dtw, **kw))
                length = L.dtw_settings_wps_length(r, c, ctypes.byref(stt))
                width = L.dtw_settings_wps_width(r, c, ctypes.byref(stt))
                buf = native.Fenced(n=length, fill=float('inf'))
                fa, fb = native.Fenced(a1.flatten().tolist()), native.Fenced(a2.flatten().tolist())
                L.dtw_warping_paths_ndim(buf.ptr, fa.ptr, r, fb.ptr, c, True, True, False, d, ctypes.byref(stt))
                if width == c + 1:
                    m = np.array(buf.values()).reshape(r + 1, c + 1)
                else:
                    full = native.Fenced(n=(r + 1) * (c + 1), fill=-7.0)
                    L.dtw_expand_wps(buf.ptr, full.ptr, r, c, ctypes.byref(stt))
                    m = np.array(full.values()).reshape(r + 1, c + 1)
            W = spec.conc_matrix(D, r, c, w, penint, psi)
            inb = spec.band_fn(r, c, w)
            if 'warping_path' in claim:
                path = [(int(a), int(b)) for a, b in dtw_ndim.warping_path(a1, a2, **kw)]
                ok, why = spec.valid_path(path, r, c, w, None)
                okc = ok and spec.close(float(spec.path_cost(path, D, 0)), float(want_int))
                return {'reproduced': not okc, 'observed': path}
            for i in range(r):
                for j in range(c):
                    v, wv = m[i + 1, j + 1], W[i + 1][j + 1]
                    if inb(i, j):
                        if not spec.close(v, float(wv)):
                            return {'reproduced': True, 'observed': {'cell': [i + 1, j + 1], 'value': float(v)}, 'expected': float(wv)}
                    elif not math.isinf(v):
                        return {'reproduced': True, 'observed': {'cell': [i + 1, j + 1], 'value': float(v)}, 'expected': 'inf'}
            return {'reproduced': False, 'observed': 'matrix matches'}
        else:
            return {'reproduced': False, 'error': 'unknown'}
        got = float(got)
        if o['md']:
            m_ = float(inp['max_dist'])
            if abs(want - m_) <= 1e-9 * max(1.0, m_):
                return {'reproduced': False, 'observed': 'threshold within rounding width'}
            bad = (math.isinf(got) and want < m_) or (not math.isinf(got) and (not spec.close(got, want) or want > m_))
            return {'reproduced': bad, 'observed': got, 'expected': {'distance': want, 'max_dist': m_}}
        return {'reproduced': not spec.close(got, want), 'observed': got, 'expected': want}
    except Exception as e:
        return {'reproduced': 'raises' in claim, 'observed': 'raised %r' % (e,)}
