"""C06 — distance matrix = pairwise distances in the documented layout, for any block."""
import os
import random
import re
import subprocess
import sys
import time

import z3

from engine import smt, pysym, spec, dtwh
from engine.pysym import SReal, Explorer
from engine.runner import jnum, unj, active_regions, ROOT

ID = 'C06'
ENGINE = 'CrossHair + PYSYM + IRSYM'
TECHNIQUE = 'CrossHair (symbolic block integers) on the Python block helpers; symbolic execution of distance_matrix / distances_array_to_matrix with an uninterpreted pair distance; IRSYM on dtw_distances_length with symbolic block integers and on the six C fill routines with an uninterpreted kernel (z3)'
BUDGET = {'quick': 420, 'thorough': 2400}
SOURCES = ['src/dtaidistance/dtw.py', 'src/dtaidistance/dtw_ndim.py', 'src/dtaidistance/util.py', 'src/DTAIDistanceC/DTAIDistanceC/dd_dtw.c']
FUNCTIONS = ['dtw._distance_matrix_length', 'dtw._distance_matrix_idxs', 'dtw._complete_block', 'dtw.distance_array_index',
             'dtw.distance_matrix (compact / square / only_triu, serial Python)', 'dtw.distance_matrix_python', 'dtw.distances_array_to_matrix',
             'dd_dtw.c dtw_distances_length, dtw_block_is_valid', 'dd_dtw.c dtw_distances_ptrs/_matrix/_ndim_ptrs/_ndim_matrix/_matrices/_ndim_matrices']
BOUNDS = {'quick': {'n': '1..5 (CrossHair per n: symbolic rb,re,cb,ce,triu; C length: symbolic block; fill routines / Python matrix: all blocks enumerated, n <= 4)'},
          'thorough': {'n': '1..6 (fill routines / Python matrix: n <= 5)'}}
OUTSIDE = ['the Cython block decoding (dtw_cc.pyx DTWBlock)', 'overflow guards of dtw_distances_length near PTRDIFF_MAX', 'n above the bound',
           'entries = single-pair distances: the pair routine itself is C01/C02']
ASSUMPTIONS = ['pair distance replaced by an uninterpreted function of the pair (i, j): the layout claims are independent of its value',
               'SeriesContainer.wrap of a list of token series is the identity on indices']
RULE = ('Python helpers: one CrossHair condition per n (all block integers symbolic); C length: one symbolic run per n and triu flag '
        '(one query per path); fill routines / square form: one run per (routine, n, block), slots compared with the k-th selected pair.')
EXPLANATION = 'bounded symbolic checking of the block / layout code, solvers = z3 (own queries) and CrossHair(z3)'

CONTRACTS = os.path.join(ROOT, 'contracts', 'c06_contracts.py')


def prepare(tier):
    from engine import irsym
    irsym.prepare()


def pairs(rb, re_, cb, ce, triu, n):
    return [(r, c) for r in range(n) for c in range(n) if rb <= r < re_ and cb <= c < ce and (c > r or not triu)]


def _all_blocks(n):
    out = [None]
    for rb in range(0, n):
        for re_ in range(rb + 1, n + 1):
            for cb in range(0, n):
                for ce in range(cb + 1, n + 1):
                    for triu in (True, False):
                        out.append((rb, re_, cb, ce, triu))
    return out


def tasks(tier, seed):
    ts = []
    nmax = 5 if tier == 'quick' else 6
    src = open(CONTRACTS).read()
    for m in re.finditer(r'^def (_\w+)\(', src, re.M):
        fn = m.group(1)
        if fn in ('_pairs',):
            continue
        mm = re.search(r'_n(\d+)$', fn)
        if mm and int(mm.group(1)) > nmax:
            continue
        line = src[:m.start()].count('\n') + 2
        ts.append({'harness': 'crosshair/' + fn, 'fam': 'crosshair', 'fn': fn, 'line': line, 'est': 10 ** (int(mm.group(1)) if mm else 2)})
    for n in range(1, (4 if tier == 'quick' else 5) + 1):
        ts.append({'harness': 'py/matrix', 'fam': 'py', 'n': n, 'est': n ** 4 * 5})
        for fn in ('dtw_distances_ptrs', 'dtw_distances_matrix', 'dtw_distances_ndim_ptrs', 'dtw_distances_ndim_matrix',
                   'dtw_distances_matrices', 'dtw_distances_ndim_matrices'):
            ts.append({'harness': 'c/fill/' + fn, 'fam': 'cfill', 'fn': fn, 'n': n, 'est': n ** 4 * 3})
    for n in range(1, nmax + 1):
        for triu in (True, False):
            ts.append({'harness': 'c/length', 'fam': 'clength', 'n': n, 'triu': triu, 'est': n ** 3})
    for t in ts:
        t['tier'], t['seed'] = tier, seed
    ts.sort(key=lambda t: -t['est'])
    return ts


# --------------------------------------------------------------------------------------------------
def _crosshair(cfg):
    stats = smt.Stats()
    t0 = time.time()
    twin = cfg['fn'].startswith('_reach')
    cmd = [sys.executable, '-m', 'crosshair', 'check', '--report_all', '--per_condition_timeout', '200' if cfg['tier'] == 'quick' else '900',
           '%s:%d' % (CONTRACTS, cfg['line'])]
    p = subprocess.run(cmd, capture_output=True, text=True, cwd=ROOT, timeout=1200)
    out = (p.stdout + p.stderr).strip()
    stats.queries += 1
    stats.nontrivial += 1
    stats.paths += 1
    stats.solver_s += time.time() - t0
    cex, incon, twin_ok = [], 0, None
    if 'Confirmed over all paths' in out and not twin:
        stats.unsat += 1
    elif 'error:' in out and 'false when calling' in out:
        stats.sat += 1
        m = re.search(r'false when calling (\w+)\((.*?)\) \(which', out)
        if twin:
            twin_ok = True
        else:
            cex.append({'harness': cfg['harness'], 'claim': 'contract %s holds' % cfg['fn'], 'fn': cfg['fn'], 'call': m.group(2) if m else '', 'inputs': {}})
    elif twin:
        twin_ok = False
        stats.unknown += 1
    else:
        stats.unknown += 1
        incon = 1
    return {'stats': stats.as_dict(), 'cex': cex, 'inconclusive': incon, 'twin': twin_ok,
            'sample': {'harness': cfg['harness'], 'condition': cfg['fn'], 'crosshair_output': out[-300:]}}


def _py_matrix(cfg):
    """dtw.distance_matrix (serial Python) with dtw.distance replaced by an uninterpreted DIST(i, j)"""
    dtw, util = dtwh.load('dtw', 'util')
    n = cfg['n']
    stats = smt.Stats()
    DIST = z3.Function('DIST', z3.IntSort(), z3.IntSort(), z3.RealSort())
    cexs, incon = [], 0

    class Tok(list):
        pass
    series = []
    for k in range(n):
        t = Tok([float(k)])
        t.idx = k
        series.append(t)
    real_distance = dtw.distance
    calls = []

    def fake_distance(s1, s2, **kw):
        calls.append((s1.idx, s2.idx))
        return SReal(DIST(s1.idx, s2.idx))
    dtw.distance = fake_distance
    try:
        for b in _all_blocks(n):
            if b is None:
                block, exp = None, pairs(0, n, 0, n, True, n)
            else:
                rb, re_, cb, ce, triu = b
                block = ((rb, re_), (cb, ce)) if triu else ((rb, re_), (cb, ce), False)
                exp = pairs(rb, re_, cb, ce, triu, n)
            for form in ('compact', 'square', 'only_triu'):
                if form != 'compact' and b is not None and not b[4]:
                    continue     # documented: non-triangular blocks require compact=True
                del calls[:]
                ex = Explorer([], stats=stats, max_paths=50)
                for p in ex.explore(lambda: dtw.distance_matrix(list(series), block=block, compact=(form == 'compact'),
                                                                only_triu=(form == 'only_triu'))):
                    stats.queries += 1
                    meta = {'harness': 'py/matrix', 'n': n, 'block': jnum(b), 'form': form, 'inputs': {}}
                    if p.exc is not None:
                        cexs.append(dict(meta, claim='distance_matrix raises %s' % type(p.exc).__name__))
                        stats.sat += 1
                        continue
                    res = p.result
                    bad = None
                    if form == 'compact':
                        got = list(res)
                        if len(got) != len(exp):
                            bad = 'length %d != %d selected pairs' % (len(got), len(exp))
                        else:
                            for k, (r, c) in enumerate(exp):
                                v = got[k]
                                if not (isinstance(v, SReal) and v.t.eq(DIST(r, c))):
                                    bad = 'slot %d does not hold the distance of pair %r' % (k, (r, c))
                                    break
                    else:
                        if len(exp) == 0 and isinstance(res, list):
                            stats.unsat += 1
                            continue
                        m = res
                        if tuple(m.shape) != (n, n):
                            bad = 'shape'
                        else:
                            es = set(exp)
                            for i in range(n):
                                for j in range(n):
                                    v = m[i, j]
                                    if (i, j) in es:
                                        ok = isinstance(v, SReal) and v.t.eq(DIST(i, j))
                                    elif (j, i) in es and form == 'square':
                                        ok = isinstance(v, SReal) and v.t.eq(DIST(j, i))
                                    elif i == j and form == 'square':
                                        ok = (not isinstance(v, SReal)) and v == 0
                                    else:
                                        ok = pysym.is_inf(v) or (hasattr(v, 'dtype') and v == float('inf'))
                                    if not ok:
                                        bad = 'cell (%d,%d) = %r' % (i, j, v)
                                        break
                                if bad:
                                    break
                    if bad:
                        stats.sat += 1
                        cexs.append(dict(meta, claim='%s form lists exactly the selected pairs in row-major order (%s)' % (form, bad)))
                    else:
                        stats.unsat += 1
                        stats.nontrivial += 1
    finally:
        dtw.distance = real_distance
    return {'stats': stats.as_dict(), 'cex': cexs[:6], 'inconclusive': incon,
            'sample': {'harness': 'py/matrix', 'n': n, 'blocks': len(_all_blocks(n)), 'forms': ['compact', 'square', 'only_triu']}}


def _c_length(cfg):
    """dtw_distances_length with symbolic block integers against the pair-count formula"""
    from engine import irsym
    irmod = irsym.module()
    n, triu = cfg['n'], cfg['triu']
    stats = smt.Stats()
    rb, re_, cb, ce = z3.Ints('rb re cb ce')
    assume = [0 <= rb, rb < re_, re_ <= n, 0 <= cb, cb < ce, ce <= n]
    count = z3.Sum([z3.If(z3.And(rb <= r, r < re_, cb <= c, c < ce, z3.BoolVal(c > r or not triu)), 1, 0)
                    for r in range(n) for c in range(n)])
    cexs, incon = [], 0

    def run():
        M = irsym.Machine(irmod)
        blk = irsym.mk_block(M, rb, re_, cb, ce, triu)
        return M.run('dtw_distances_length', [blk, n, n])
    ex = Explorer(assume, stats=stats, max_paths=5000)
    for p in ex.explore(run):
        if p.exc is not None:
            if isinstance(p.exc, irsym.Violation):
                continue
            raise p.exc
        res = p.result
        rt = res if isinstance(res, z3.ExprRef) else z3.IntVal(int(res))
        r_, m = smt.decide(stats, assume + p.facts(), rt != count, lemmas=False)
        if r_ == 'sat':
            vals = {k: m.eval(v, model_completion=True).as_long() for k, v in (('rb', rb), ('re', re_), ('cb', cb), ('ce', ce))}
            cexs.append({'harness': 'c/length', 'claim': 'dtw_distances_length = number of selected pairs', 'n': n, 'triu': triu,
                         'block': vals, 'inputs': {}})
        elif r_ == 'unknown':
            incon += 1
    # the "no block" encodings re = ce = 0
    for tr in (True, False):
        M = irsym.Machine(irmod)
        blk = irsym.mk_block(M, 0, 0, 0, 0, tr)
        res = M.run('dtw_distances_length', [blk, n, n])
        stats.queries += 1
        if res != len(pairs(0, n, 0, n, tr, n)):
            stats.sat += 1
            cexs.append({'harness': 'c/length', 'claim': 'dtw_distances_length = number of selected pairs', 'n': n, 'triu': tr,
                         'block': {'rb': 0, 're': 0, 'cb': 0, 'ce': 0}, 'inputs': {}})
        else:
            stats.unsat += 1
    return {'stats': stats.as_dict(), 'cex': cexs[:6], 'inconclusive': incon + ex.inconclusive_paths, 'truncated': ex.truncated,
            'sample': {'harness': 'c/length', 'n': n, 'triu': triu, 'query': 'dtw_distances_length(block) != sum over (r,c) of [rb<=r<re, cb<=c<ce, c>r or not triu]  (symbolic rb,re,cb,ce; unsat expected)'}}


def c_fill_run(irmod, fn, n, bd):
    """one fill routine on one block with the kernel replaced by DISTK(r, c); returns (returned length, slots, calls)"""
    from engine import irsym, cspec
    from checks import C08
    ndim = 2 if 'ndim' in fn else 1
    lens = [1 + (k % 2) for k in range(n)] if 'ptrs' in fn else [2] * n
    maxl = max(lens)
    DIST = z3.Function('DISTK', z3.IntSort(), z3.IntSort(), z3.RealSort())
    calls = []

    def ident(p):
        name = p.obj.name.split('#')[0]
        if name.startswith('ser'):
            return int(name[3:])
        return p.off // (8 * maxl * ndim)

    def hook(M):
        def kernel(M_, *a):
            r, c = ident(a[0]), ident(a[2])
            calls.append((r, c))
            return DIST(z3.IntVal(r), z3.IntVal(c))
        for k in ('dtw_distance', 'dtw_distance_ndim'):
            M.stubs[k] = kernel
    M0 = irsym.Machine(irmod)
    blk0 = irsym.mk_block(M0, bd['rb'], bd['re'], bd['cb'], bd['ce'], bd['triu'])
    blk0.obj.writable = True
    length = M0.run('dtw_distances_length', [blk0, n, n])
    bufs = C08.distances_spec(fn, n, bd, lens, ndim)
    bufs.append(['out', 'double', int(length)])
    if 'ptrs' in fn:
        args = ['ptrs', n, 'lens'] + ([ndim] if ndim > 1 else []) + ['out', 'block', 'settings']
    elif 'matrices' in fn:
        args = ['mr', n, maxl, 'mc', n, maxl] + ([ndim] if ndim > 1 else []) + ['out', 'block', 'settings']
    else:
        args = ['mat', n, maxl] + ([ndim] if ndim > 1 else []) + ['out', 'block', 'settings']
    sp = {'settings': {}, 'block': bd, 'bufs': bufs, 'calls': [[fn, args, 'idx']]}
    res, M, bb = cspec.run_symbolic(irmod, sp, {}, machine_hook=hook)
    out = bb['out'].obj
    slots = [out.cells.get(8 * k) for k in range(int(length))]
    return res[0], int(length), slots, calls, DIST


def _c_fill(cfg):
    from engine import irsym
    irmod = irsym.module()
    fn, n = cfg['fn'], cfg['n']
    stats = smt.Stats()
    cexs = []
    blocks = _all_blocks(n) + [(0, 0, 0, 0, True), (0, 0, 0, 0, False)]
    for b in blocks:
        bd = {'rb': 0, 're': 0, 'cb': 0, 'ce': 0, 'triu': True} if b is None else dict(zip(('rb', 're', 'cb', 'ce', 'triu'), b))
        if bd['re'] == 0 and bd['ce'] == 0:
            exp = pairs(0, n, 0, n, bd['triu'], n)
        else:
            exp = pairs(bd['rb'], bd['re'], bd['cb'], bd['ce'], bd['triu'], n)
        stats.queries += 1
        stats.paths += 1
        meta = {'harness': cfg['harness'], 'fn': fn, 'n': n, 'block': jnum(bd), 'inputs': {}}
        try:
            ret, length, slots, calls, DIST = c_fill_run(irmod, fn, n, bd)
        except irsym.Violation as e:
            stats.sat += 1
            cexs.append(dict(meta, claim='fill routine stays inside the advertised output length (%s)' % e.kind))
            continue
        bad = None
        if ret != len(exp) or length != len(exp):
            bad = 'returned length %r / advertised %r != %d selected pairs' % (ret, length, len(exp))
        else:
            for k, (r, c) in enumerate(exp):
                v = slots[k]
                if not (isinstance(v, z3.ExprRef) and v.eq(DIST(z3.IntVal(r), z3.IntVal(c)))):
                    bad = 'slot %d does not hold the distance of pair %r' % (k, (r, c))
                    break
        if bad:
            stats.sat += 1
            cexs.append(dict(meta, claim='C compact result lists exactly the selected pairs in row-major order (%s)' % bad))
        else:
            stats.unsat += 1
            stats.nontrivial += 1
    return {'stats': stats.as_dict(), 'cex': cexs[:6], 'inconclusive': 0,
            'sample': {'harness': cfg['harness'], 'n': n, 'blocks': len(blocks), 'check': 'slot k == DISTK(k-th selected pair), returned == advertised == #pairs'}}


def run_task(cfg):
    return {'crosshair': _crosshair, 'py': _py_matrix, 'clength': _c_length, 'cfill': _c_fill}[cfg['fam']](cfg)


# --------------------------------------------------------------------------------------------------
def replay(cex):
    """the counterexamples of this check are structural (no symbolic reals): re-run the concrete computation on the real code"""
    h = cex['harness']
    if h.startswith('crosshair/'):
        sys.path.insert(0, os.path.join(ROOT, 'contracts'))
        import importlib
        mod = importlib.import_module('c06_contracts')
        args = eval('(' + cex['call'] + ',)')
        ok = getattr(mod, cex['fn'])(*args)
        return {'reproduced': not ok, 'observed': 'contract returned %r for %s' % (ok, cex['call'])}
    if h == 'py/matrix':
        from dtaidistance import dtw
        import numpy as np
        n = cex['n']
        series = [np.array([float(k), float(k * k + 1)]) for k in range(n)]
        b = cex['block']
        block = None if b is None else (((b[0], b[1]), (b[2], b[3])) if b[4] else ((b[0], b[1]), (b[2], b[3]), False))
        exp = pairs(0, n, 0, n, True, n) if b is None else pairs(b[0], b[1], b[2], b[3], b[4], n)
        form = cex['form']
        try:
            res = dtw.distance_matrix(series, block=block, compact=(form == 'compact'), only_triu=(form == 'only_triu'))
        except Exception as e:
            return {'reproduced': True, 'observed': 'raised %r' % (e,)}
        want = {p: dtw.distance(series[p[0]], series[p[1]]) for p in exp}
        if form == 'compact':
            ok = len(res) == len(exp) and all(spec.close(res[k], want[p]) for k, p in enumerate(exp))
        else:
            ok = True
            if len(exp) == 0 and isinstance(res, list):
                return {'reproduced': False, 'observed': 'empty'}
            for i in range(n):
                for j in range(n):
                    if (i, j) in want:
                        ok = ok and spec.close(res[i, j], want[(i, j)])
                    elif (j, i) in want and form == 'square':
                        ok = ok and spec.close(res[i, j], want[(j, i)])
                    elif i == j and form == 'square':
                        ok = ok and res[i, j] == 0
                    else:
                        ok = ok and res[i, j] == float('inf')
        return {'reproduced': not ok, 'observed': jnum(res if isinstance(res, list) else np.asarray(res).tolist()), 'expected': jnum({str(k): v for k, v in want.items()})}
    if h == 'c/length':
        from engine import native
        import ctypes
        L = native.lib()
        b = cex['block']
        blk = native.CBlock(b['rb'], b['re'], b['cb'], b['ce'], bool(cex['triu']))
        n = cex['n']
        got = L.dtw_distances_length(ctypes.byref(blk), n, n)
        want = len(pairs(0, n, 0, n, cex['triu'], n)) if (b['re'] == 0 and b['ce'] == 0) else len(pairs(b['rb'], b['re'], b['cb'], b['ce'], cex['triu'], n))
        return {'reproduced': got != want, 'observed': got, 'expected': want}
    if h.startswith('c/fill/'):
        from engine import native
        import ctypes
        L = native.lib()
        fn, n = cex['fn'], cex['n']
        b = cex['block']
        blk = native.CBlock(b['rb'], b['re'], b['cb'], b['ce'], bool(b['triu']))
        exp = pairs(0, n, 0, n, b['triu'], n) if (b['re'] == 0 and b['ce'] == 0) else pairs(b['rb'], b['re'], b['cb'], b['ce'], b['triu'], n)
        length = L.dtw_distances_length(ctypes.byref(blk), n, n)
        st = native.settings({})
        out = native.Fenced(n=max(length, 0), fill=-5.0)
        ndim = 2 if 'ndim' in fn else 1
        rows = [[float(k + 1) * (1 + 0.37 * j) for j in range(2 * ndim)] for k in range(n)]
        flat = native.Fenced([v for r in rows for v in r])
        blk2 = native.CBlock(b['rb'], b['re'], b['cb'], b['ce'], bool(b['triu']))
        if fn == 'dtw_distances_matrix':
            ret = L.dtw_distances_matrix(flat.ptr, n, 2, out.ptr, ctypes.byref(blk2), ctypes.byref(st))
        elif fn == 'dtw_distances_ndim_matrix':
            ret = L.dtw_distances_ndim_matrix(flat.ptr, n, 2, ndim, out.ptr, ctypes.byref(blk2), ctypes.byref(st))
        else:
            sers = [native.Fenced(r) for r in rows]
            ptrs = (native.c_double_p * n)(*[s.ptr for s in sers])
            lens = (ctypes.c_ssize_t * n)(*([2] * n))
            if fn == 'dtw_distances_ptrs':
                ret = L.dtw_distances_ptrs(ptrs, n, lens, out.ptr, ctypes.byref(blk2), ctypes.byref(st))
            elif fn == 'dtw_distances_ndim_ptrs':
                ret = L.dtw_distances_ndim_ptrs(ptrs, n, lens, ndim, out.ptr, ctypes.byref(blk2), ctypes.byref(st))
            else:
                return {'reproduced': False, 'error': 'replay of the two-matrix variants is not implemented'}
        vals = out.values()
        want = [native.distance(rows[r], rows[c], {}, ndim=1) if ndim == 1 else
                native.distance([rows[r][:2], rows[r][2:]], [rows[c][:2], rows[c][2:]], {}, ndim=2) for r, c in exp]
        ok = ret == len(exp) and length == len(exp) and out.intact() and all(spec.close(a, b_) for a, b_ in zip(vals, want))
        return {'reproduced': not ok, 'observed': {'returned': ret, 'advertised': length, 'values': vals}, 'expected': want}
    return {'reproduced': False, 'error': 'unknown harness'}
