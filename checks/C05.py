"""C05 — every reported warping path is valid and achieves the reported distance."""
import math
import random
from fractions import Fraction

import z3

from engine import smt, pysym, spec, dtwh
from engine.pysym import SReal, Explorer
from engine.smt import ER, INF
from engine.runner import jnum, unj, active_regions

ID = 'C05'
ENGINE = 'PYSYM + IRSYM'
TECHNIQUE = 'symbolic execution of the back-tracking routines (Python; C via LLVM IR on compact matrices produced by the C kernel); per path the returned index pairs are concrete and their accumulated cost is compared with the distance by SMT (z3)'
BUDGET = {'quick': 420, 'thorough': 3000}
SOURCES = ['src/dtaidistance/dtw.py', 'src/DTAIDistanceC/DTAIDistanceC/dd_dtw.c', 'src/dtaidistance/dtw_cc.pyx']
FUNCTIONS = ['dtw.warping_path', 'dtw.best_path', 'dtw.best_path2', 'dtw.warp', 'dd_dtw.c dtw_best_path, dtw_best_path_customstart, '
             'dtw_best_path_isclose, dtw_warping_path, dtw_warping_path_ndim (on matrices from dtw_warping_paths_ndim)']
BOUNDS = {'quick': {'r,c': '1..3 (+ 3x4, 4x3 with window 1 for the C engine)', 'window': 'None,1,2,3', 'penalty': 'None|symbolic',
                    'psi': 'None, (1,0,1,0); psi at the end of a series is the region of the known findings F05-*-psi-end', 'ndim': '1'},
          'thorough': {'r,c': '1..4', 'window': 'all', 'penalty': 'None|symbolic', 'psi': 'None, 1, (0,1,0,1), (1,0,1,0), (1,1,0,0)', 'ndim': '1..2'}}
OUTSIDE = ['dtw_best_path_prob / warping_path_prob (random)', 'floating point rounding', 'which of several optimal paths is returned']
ASSUMPTIONS = ['path cost oracle = sum of point distances + penalty per non-diagonal step', 'distance oracle = spec_dtw (C01/C02)']
RULE = ('configuration = (routine, engine, r, c, window, penalty, psi); one query per execution path (the back-tracking decisions '
        'fork, so the path is concrete): structural validity is checked concretely, cost(path) = distance by the solver.')
EXPLANATION = 'bounded symbolic model checking of the path routines, solver = z3'

P = z3.Real('P')


def prepare(tier):
    from engine import irsym
    irsym.prepare()


def _psis(r, c, tier):
    out = [None, 1, (0, 1, 0, 1), (1, 0, 1, 0)] + ([(1, 1, 0, 0)] if tier == 'thorough' else [])
    return [p for p in out if not spec.psi_degenerate(r, c, p) and
            all(v <= (r if i < 2 else c) for i, v in enumerate(spec.norm_psi(p)))]


ROUTINES_PY = ['warping_path', 'best_path', 'best_path2', 'warp']
ROUTINES_C = ['dtw_warping_path', 'dtw_best_path', 'dtw_best_path_isclose', 'dtw_best_path_customstart']


def tasks(tier, seed):
    n = 3 if tier == 'quick' else 4
    ts = []
    for r in range(1, n + 2):
        for c in range(1, n + 2):
            small = r <= n and c <= n
            if not small and not (tier == 'quick' and r * c == 12):
                continue
            for rt in ROUTINES_PY:
                if small:
                    ts.append({'harness': 'py/' + rt, 'eng': 'py', 'routine': rt, 'r': r, 'c': c, 'est': 3 ** (r + c)})
            for rt in ROUTINES_C:
                ts.append({'harness': 'c/' + rt, 'eng': 'c', 'routine': rt, 'r': r, 'c': c, 'est': 2 * 3 ** (r + c), 'narrow': not small})
    for t in ts:
        t['tier'], t['seed'] = tier, seed
    ts.sort(key=lambda t: -t['est'])
    return ts


def run_task(cfg):
    dtw, innerdistance, ed = dtwh.load('dtw', 'innerdistance', 'ed')
    eng, rt, r, c, tier = cfg['eng'], cfg['routine'], cfg['r'], cfg['c'], cfg['tier']
    stats = smt.Stats()
    cexs, incon, sample, trunc = [], 0, None, False
    act = active_regions(ID)
    irmod = None
    if eng == 'c':
        from engine import irsym, ckern
        irmod = irsym.module()
    wins = [None, 1, 2, 3] if tier == 'quick' else dtwh.windows(r, c)
    wins = [w for w in wins if w is None or w <= max(r, c)]
    if cfg.get('narrow'):
        wins = [1]
    for w in wins:
        for psi in _psis(r, c, tier):
            for pen in (False, True):
                pp = spec.norm_psi(psi)
                if cfg.get('narrow') and psi is not None:
                    continue
                if eng == 'c' and (pp[1] or pp[3]) and 'F05-c-psi-end' in act:
                    continue
                if eng == 'py' and (pp[1] or pp[3]) and 'F05-py-psi-end' in act:
                    continue
                if eng == 'py' and pen and rt in ('warping_path', 'warp', 'best_path2') and 'F05-py-penalty' in act:
                    continue
                if eng == 'py' and rt == 'warp' and psi is not None and 'F05-warp-psi' in act:
                    continue
                if eng == 'c' and w is not None and w < max(r, c) and abs(r - c) + 2 * w + 1 >= c + 1 and 'F04-c-clamped-width' in active_regions('C04') \
                        and rt != 'dtw_warping_path' and False:
                    continue
                mode = dtwh.SeriesMode(r, c, 'squared euclidean') if eng == 'c' else dtwh.CostMode(r, c)
                assume = list(mode.assume) + [P >= 0]
                kw = {'window': w, 'psi': psi}
                if pen:
                    kw['penalty'] = SReal(P)
                o = {'window': w, 'psi': psi, 'pen': pen}
                syms = {'penalty': P if pen else None}
                meta = {'harness': cfg['harness'], 'eng': eng, 'routine': rt, 'r': r, 'c': c, 'opts': jnum(o), 'kind': mode.kind}
                final = spec.spec_dtw(mode.D, r, c, w, mode.tr(P) if pen else 0, psi)
                penint = mode.tr(P) if pen else 0
                start_cells = [None]
                if rt == 'dtw_best_path_customstart':
                    inb = spec.band_fn(r, c, w)
                    start_cells = [(i, j) for i in range(r) for j in range(c) if inb(i, j)]
                    if psi is not None:
                        continue
                for sc in start_cells:
                    if eng == 'py':
                        pkw = dict(mode.kw(), **kw)

                        def run():
                            if rt == 'warping_path':
                                path, d = dtw.warping_path(mode.s1, mode.s2, include_distance=True, **pkw)
                                return d, path, 'result'
                            if rt == 'warp':
                                res = dtw.warping_paths(mode.s1, mode.s2, **pkw)
                                _w, path = dtw.warp(mode.s1, mode.s2, **pkw)
                                return res[0], path, 'result'
                            res = dtw.warping_paths(mode.s1, mode.s2, keep_int_repr=True, **pkw)
                            d, m = res
                            if rt == 'best_path':
                                return d, dtw.best_path(m, penalty=penint if not pen else SReal(penint)), 'internal'
                            return d, dtw.best_path2(m), 'internal'
                    else:
                        def run():
                            from engine import ckern
                            cs = dtwh.c_settings(dtw, **dict(kw, inner_dist='squared euclidean'))
                            if rt == 'dtw_warping_path':
                                d, path, _M = ckern.warping_path(irmod, mode, cs)
                                return d, path, 'result'
                            wps = ckern.warping_paths(irmod, mode, cs, keep_int_repr=True, psi_neg=True, fill=INF)
                            if rt == 'dtw_best_path':
                                return wps.d, ckern.best_path(wps), 'internal'
                            if rt == 'dtw_best_path_isclose':
                                return wps.d, ckern.best_path(wps, 'dtw_best_path_isclose', (1e-5, 1e-8)), 'internal'
                            return None, ckern.best_path(wps, 'dtw_best_path_customstart', (sc[0] + 1, sc[1] + 1)), 'internal'
                    ex = Explorer(assume, max_paths=4000, stats=stats)
                    for p in ex.explore(run):
                        facts = assume + p.facts()
                        if p.exc is not None:
                            if eng == 'c':
                                from engine import irsym
                                if isinstance(p.exc, irsym.Violation):
                                    continue      # C08
                                raise p.exc
                            cx = dtwh.claim(stats, facts, z3.BoolVal(True), mode, syms,
                                            dict(meta, claim='%s raises %s' % (rt, type(p.exc).__name__)))
                            if cx not in (None, 'unknown'):
                                cexs.append(cx)
                            continue
                        d, path, dom = p.result
                        path = [(int(a), int(b)) for a, b in path]
                        # ---- structural validity (concrete on this execution path)
                        if sc is None:
                            ok, why = spec.valid_path(path, r, c, w, psi)
                        else:
                            # custom start: path must end at the start cell and begin in the top-left corner
                            ok, why = spec.valid_path(path, sc[0] + 1, sc[1] + 1, None, None) if path else (False, 'empty path')
                            inb = spec.band_fn(r, c, w)
                            if ok and not all(inb(i, j) for i, j in path):
                                ok, why = False, 'pair outside the window band'
                        if not ok:
                            cx = dtwh.claim(stats, facts, z3.BoolVal(True), mode, syms,
                                            dict(meta, claim='returned path is a valid warping path', why=why, start=sc))
                            if cx == 'unknown':
                                incon += 1
                            elif cx is not None:
                                cexs.append(cx)
                            continue
                        # ---- accumulated cost (penalties included) equals the reported distance
                        cost = spec.path_cost(path, mode.D, penint)
                        if sc is not None:
                            W = spec.spec_matrix(mode.D, r, c, w, penint, None)
                            want = W[sc[0] + 1][sc[1] + 1]
                            neg = smt.er_neq(ER(cost), want)
                            cl = 'cost along the path traced from a custom start cell equals that cell (optimal partial cost)'
                        else:
                            neg = smt.er_neq(ER(cost), final)
                            cl = 'cost accumulated along the returned path (penalties included) equals the DTW distance'
                        if rt == 'dtw_best_path_isclose':
                            cx = None      # tolerance based tie-breaking: only structural validity is claimed
                        else:
                            cx = dtwh.claim(stats, facts, neg, mode, syms, dict(meta, claim=cl, start=sc))
                        if cx == 'unknown':
                            incon += 1
                        elif cx is not None:
                            cexs.append(cx)
                        if sample is None:
                            sample = {'harness': cfg['harness'], 'r': r, 'c': c, 'options': jnum(o), 'path': path,
                                      'query': cl + ' -- negated, unsat expected'}
                    trunc = trunc or ex.truncated
                    incon += ex.inconclusive_paths
    return {'stats': stats.as_dict(), 'cex': cexs, 'inconclusive': incon, 'sample': sample, 'truncated': trunc}


# --------------------------------------------------------------------------------------------------
def replay(cex):
    from dtaidistance import dtw
    import numpy as np
    inp = unj(cex['inputs'])
    o = unj(cex['opts'])
    r, c, eng, rt, kind = cex['r'], cex['c'], cex['eng'], cex['routine'], cex['kind']
    psi = o.get('psi')
    psi = tuple(int(x) for x in psi) if isinstance(psi, list) else (None if psi is None else int(psi))
    w = None if o.get('window') is None else int(o['window'])
    kw = {'window': w, 'psi': psi}
    pen = float(inp['penalty']) if o.get('pen') else None
    if pen is not None:
        kw['penalty'] = pen
    sc = cex.get('start')
    if kind == 'cost':
        dm = dtwh.fl(inp['dm'])
        s1, s2 = list(range(r)), list(range(c))
        pkw = dict(kw, inner_dist=dtwh.conc_inner(dm))
        D = dtwh.conc_D('cost', None, {'dm': dm})
        penint = Fraction(pen) if pen else 0
    else:
        s1, s2 = dtwh.fl(inp['s1']), dtwh.fl(inp['s2'])
        pkw = dict(kw)
        D = dtwh.conc_D('series', 'squared euclidean', {'s1': s1, 's2': s2})
        penint = Fraction(pen) ** 2 if pen else 0
    try:
        if eng == 'py':
            if rt == 'warping_path':
                path, d = dtw.warping_path(s1, s2, include_distance=True, **pkw)
            elif rt == 'warp':
                _w, path = dtw.warp(s1, s2, **pkw)
            else:
                d, m = dtw.warping_paths(s1, s2, keep_int_repr=True, **pkw)
                path = dtw.best_path(m, penalty=float(penint)) if rt == 'best_path' else dtw.best_path2(m)
        else:
            from engine import native
            import ctypes
            L = native.lib()
            cs = dtwh.c_settings(dtw, **dict(kw, inner_dist='squared euclidean'))
            st = native.settings(cs)
            a, b = native.Fenced(s1), native.Fenced(s2)
            n = r + c
            i1 = (ctypes.c_ssize_t * (n + 4))(*([-77] * (n + 4)))
            i2 = (ctypes.c_ssize_t * (n + 4))(*([-77] * (n + 4)))
            if rt == 'dtw_warping_path':
                ln = ctypes.c_ssize_t(0)
                L.dtw_warping_path(a.ptr, r, b.ptr, c, i1, i2, ctypes.byref(ln), ctypes.byref(st))
                length = ln.value
            else:
                length_w = L.dtw_settings_wps_length(r, c, ctypes.byref(st))
                buf = native.Fenced(n=length_w, fill=float('inf'))
                L.dtw_warping_paths(buf.ptr, a.ptr, r, b.ptr, c, True, True, True, ctypes.byref(st))
                if rt == 'dtw_best_path':
                    length = L.dtw_best_path(buf.ptr, i1, i2, r, c, ctypes.byref(st))
                elif rt == 'dtw_best_path_isclose':
                    L.dtw_best_path_isclose.restype = ctypes.c_ssize_t
                    L.dtw_best_path_isclose.argtypes = [native.c_double_p, native.c_ssize_p, native.c_ssize_p, ctypes.c_ssize_t,
                                                        ctypes.c_ssize_t, ctypes.c_double, ctypes.c_double, ctypes.POINTER(native.CSettings)]
                    length = L.dtw_best_path_isclose(buf.ptr, i1, i2, r, c, 1e-5, 1e-8, ctypes.byref(st))
                else:
                    L.dtw_best_path_customstart.restype = ctypes.c_ssize_t
                    L.dtw_best_path_customstart.argtypes = [native.c_double_p, native.c_ssize_p, native.c_ssize_p, ctypes.c_ssize_t,
                                                            ctypes.c_ssize_t, ctypes.c_ssize_t, ctypes.c_ssize_t,
                                                            ctypes.POINTER(native.CSettings)]
                    length = L.dtw_best_path_customstart(buf.ptr, i1, i2, r, c, int(sc[0]) + 1, int(sc[1]) + 1, ctypes.byref(st))
            if not (0 <= length <= n) or i1[n] != -77 or i2[n] != -77:
                return {'reproduced': True, 'observed': {'length': length}, 'expected': 'at most len1+len2 entries'}
            path = [(i1[k], i2[k]) for k in range(length)][::-1]
    except Exception as e:
        return {'reproduced': True, 'observed': 'raised %r' % (e,), 'expected': 'a path'}
    path = [(int(x), int(y)) for x, y in path]
    if sc is None:
        ok, why = spec.valid_path(path, r, c, w, psi)
    else:
        ok, why = spec.valid_path(path, int(sc[0]) + 1, int(sc[1]) + 1, None, None) if path else (False, 'empty')
        inb = spec.band_fn(r, c, w)
        if ok and not all(inb(i, j) for i, j in path):
            ok, why = False, 'pair outside the band'
    if not ok:
        return {'reproduced': True, 'observed': {'path': path, 'why': why}, 'expected': 'a valid warping path'}
    cost = spec.path_cost(path, D, penint)
    if sc is None:
        want = spec.conc_dtw(D, r, c, w, penint, psi)
    else:
        want = spec.conc_matrix(D, r, c, w, penint, None)[int(sc[0]) + 1][int(sc[1]) + 1]
    return {'reproduced': not spec.close(float(cost), float(want)), 'observed': {'path': path, 'cost': float(cost)},
            'expected': {'optimal cost': float(want)}}
