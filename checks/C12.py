"""C12 — one DBA step averages optimally aligned points and never worsens the fit; C = Python; dba_loop is bounded."""
import itertools
import math
from fractions import Fraction

import z3

from engine import smt, pysym, spec, dtwh
from engine.pysym import SReal, Explorer
from engine.smt import ER, INF
from engine.runner import jnum, unj, active_regions

ID = 'C12'
ENGINE = 'PYSYM + IRSYM'
TECHNIQUE = 'symbolic execution of dtw_barycenter.dba / dba_loop and of the C dtw_dba_ptrs / dtw_dba_matrix (LLVM IR) on symbolic series and averages; the alignments used are recorded per execution path and the update, its optimality and the objective are decided by z3 (QF_LRA + UF, QF_NRA for the objective)'
BUDGET = {'quick': 420, 'thorough': 3000}
SOURCES = ['src/dtaidistance/dtw_barycenter.py', 'src/dtaidistance/dtw.py', 'src/DTAIDistanceC/DTAIDistanceC/dd_dtw.c']
FUNCTIONS = ['dtw_barycenter.dba', 'dtw_barycenter.dba_loop', 'dtw.warping_path', 'dd_dtw.c dtw_dba_ptrs, dtw_dba_matrix (deterministic branch), dtw_warping_paths_ndim, dtw_best_path']
BOUNDS = {'quick': {'n series': '1..2', 'average length': '1..2', 'series length': '1..2 (3 for one series)', 'ndim': '1 (C: 1..2)', 'window': 'None, 1',
                    'penalty': 'None | symbolic (C engine)', 'masks': 'all with >= 1 selected', 'max_it': '1..2'},
          'thorough': {'n series': '1..3', 'average length': '1..3', 'series length': '1..3', 'ndim': '1..2', 'window': 'None,1', 'max_it': '1..3',
                       'larger shapes (C engine; Python with window 1)': '(t, lengths) = (4,[4]), (4,[4,3]), (3,[4,4]), (5,[5,3]), (6,[6,4]), (4,[2,5]) with windows None/1/2 as far as the exploration finishes'}}
OUTSIDE = ['nb_prob_samples > 0 and get_good_c (random sampling)', 'the Cython glue (mask packing is transcribed: little-endian bit per series)', 'floating point rounding',
           'Python engine with a penalty: dtw.warping_path ignores it (C05 known finding F05-py-penalty)']
ASSUMPTIONS = ['the alignment used for a series is observed by wrapping warping_path (Python) / dtw_best_path (C); it must be a valid optimal path',
               'objective non-increase is posed directly as a QF_NRA query (exact squares); unknown is inconclusive']
RULE = ('configuration = (engine, n, average length, series lengths, mask, window, penalty); all values symbolic; one query per claim and execution path.')
EXPLANATION = 'bounded symbolic model checking of the DBA update, solver = z3'

P = z3.Real('P')


def prepare(tier):
    from engine import irsym
    irsym.prepare()


def tasks(tier, seed):
    ts = []
    shapes = [(1, [1]), (1, [2]), (2, [2]), (2, [1, 2]), (2, [2, 2]), (1, [2, 2]), (2, [3])]
    if tier == 'thorough':
        shapes += [(2, [2, 2, 2]), (3, [3]), (3, [2, 3]), (3, [3, 3]), (2, [3, 2, 1])]
    big = []
    if tier == 'thorough':      # larger shapes: C engine only (the Python exploration does not finish there), narrow windows also in Python
        big = [(4, [4], (None, 1, 2)), (4, [4, 3], (None, 1)), (3, [4, 4], (None, 1)), (5, [5, 3], (1, 2)), (6, [6, 4], (1,)), (4, [2, 5], (1, 2))]
    for t, lens, wins, engines in [(t, lens, (None, 1), ('py', 'c')) for t, lens in shapes] + [(t, lens, w, ('c',)) for t, lens, w in big] + \
            [(t, lens, tuple(x for x in w if x == 1), ('py',)) for t, lens, w in big if 1 in w and t * max(lens) <= 16]:
        n = len(lens)
        masks = [m for m in itertools.product([True, False], repeat=n) if any(m)]
        if t * max(lens) > 9:
            masks = [m for m in masks if all(m)]
        for mask in masks:
            for w in wins:
                if 'py' in engines:
                    ts.append({'harness': 'py/dba', 'eng': 'py', 't': t, 'lens': lens, 'mask': list(mask), 'window': w, 'pen': False, 'ndim': 1,
                               'est': 9 ** min(6, sum(lens[i] for i in range(n) if mask[i])) * t})
                if 'c' not in engines:
                    continue
                for pen in (False, True):
                    for fn in ('dtw_dba_ptrs', 'dtw_dba_matrix'):
                        if fn == 'dtw_dba_matrix' and len(set(lens)) != 1:
                            continue
                        for ndim in ((1, 2) if (t * max(lens) <= 2 or (tier == 'thorough' and t * max(lens) <= 9)) else (1,)):
                            ts.append({'harness': 'c/' + fn, 'eng': 'c', 'fn': fn, 't': t, 'lens': lens, 'mask': list(mask), 'window': w, 'pen': pen,
                                       'ndim': ndim, 'est': 9 ** min(6, sum(lens[i] for i in range(n) if mask[i])) * t * ndim})
    for t, lens in [(1, [2]), (2, [2]), (2, [1, 2])]:
        for mi in ((1, 2) if tier == 'quick' else (1, 2, 3)):
            ts.append({'harness': 'py/dba_loop', 'eng': 'loop', 't': t, 'lens': lens, 'max_it': mi, 'est': 30 ** mi})
    for t in ts:
        t['tier'], t['seed'] = tier, seed
    ts.sort(key=lambda t: -t['est'])
    return ts


def _vars(t, lens, ndim):
    cv = [[z3.Real('c%d_%d' % (i, k)) for k in range(ndim)] for i in range(t)]
    sv = [[[z3.Real('s%d_%d_%d' % (q, j, k)) for k in range(ndim)] for j in range(lens[q])] for q in range(len(lens))]
    return cv, sv


def _D(cv, seq, ndim):
    return [[sum(pysym.square_term(cv[i][k] - seq[j][k]) for k in range(ndim)) for j in range(len(seq))] for i in range(len(cv))]


def run_task(cfg):
    dtw, innerdistance, ed, util = dtwh.load('dtw', 'innerdistance', 'ed', 'util')
    bary = dtwh.load('dtw_barycenter')
    np = pysym._np()
    stats = smt.Stats()
    cexs, incon, sample = [], 0, None
    eng, t, lens = cfg['eng'], cfg['t'], cfg['lens']
    n = len(lens)
    ndim = cfg.get('ndim', 1)
    cv, sv = _vars(t, lens, ndim)
    syms = {str(x): x for row in cv for x in row}
    syms.update({str(x): x for s_ in sv for row in s_ for x in row})
    syms['P'] = P if cfg.get('pen') else None
    assume = [P >= 0]
    meta = {k: cfg.get(k) for k in ('harness', 'eng', 'fn', 't', 'lens', 'mask', 'window', 'pen', 'ndim', 'max_it')}

    def check(facts, neg, claim, lemmas='unary', timeout_ms=None, refine=False):
        nonlocal incon
        cx = dtwh.claim(stats, facts, neg, None, syms, dict(meta, claim=claim), lemmas=lemmas, refine=refine, timeout_ms=timeout_ms)
        if cx == 'unknown':
            incon += 1
        elif cx is not None:
            cx['kind'] = 'series'
            cexs.append(cx)

    if eng == 'loop':
        series = [pysym.objarray([SReal(x[0]) for x in s_]) for s_ in sv]
        c0 = pysym.objarray([SReal(x[0]) for x in cv])
        calls = []
        real_dba = bary.dba

        def counting(*a, **k):
            calls.append(1)
            return real_dba(*a, **k)
        bary.dba = counting
        try:
            def run():
                del calls[:]
                avg = bary.dba_loop(series, c=c0, max_it=cfg['max_it'], thr=0.001, use_c=False)
                return len(calls), [x for x in avg]
            ex = Explorer(assume, max_paths=3000, stats=stats)
            for p in ex.explore(run):
                facts = assume + p.facts()
                if p.exc is not None:
                    check(facts, z3.BoolVal(True), 'dba_loop raises %s: %s' % (type(p.exc).__name__, str(p.exc)[:60]))
                    continue
                ncalls, avg = p.result
                check(facts, z3.BoolVal(not (1 <= ncalls <= cfg['max_it']) or len(avg) != t), 'dba_loop performs at most max_it averaging steps and returns an average of the initial length')
                if sample is None:
                    sample = {'harness': cfg['harness'], 't': t, 'lens': lens, 'max_it': cfg['max_it'], 'steps': ncalls}
            incon += ex.inconclusive_paths
        finally:
            bary.dba = real_dba
        return {'stats': stats.as_dict(), 'cex': cexs, 'inconclusive': incon, 'sample': sample}

    mask = cfg['mask']
    window = cfg['window']
    pen = cfg['pen']
    penint = pysym.square_term(P) if pen else 0
    Ds = [_D(cv, sv[q], ndim) for q in range(n)]
    opt = [spec.spec_dtw(Ds[q], t, lens[q], window, penint, None) for q in range(n)]

    if eng == 'py':
        series = [pysym.objarray([SReal(x[0]) for x in s_]) for s_ in sv]
        c0 = pysym.objarray([SReal(x[0]) for x in cv])
        recorded = []
        real_wp = bary.warping_path

        def rec_wp(a, b, **kw):
            path = real_wp(a, b, **kw)
            recorded.append([(int(i), int(j)) for i, j in path])
            return path
        bary.warping_path = rec_wp
        try:
            def run():
                del recorded[:]
                kw = {}
                if window is not None:
                    kw['window'] = window
                res = bary.dba(series, c0, mask=np.array(mask, dtype=bool), use_c=False, **kw)
                return [x for x in res], [list(p_) for p_ in recorded]
            ex = Explorer(assume, max_paths=3000, stats=stats, pairwise=True)
            paths_iter = list(ex.explore(run))
        finally:
            bary.warping_path = real_wp
        results = [(p, (p.result if p.exc is None else None)) for p in paths_iter]
    else:
        from engine import irsym, cspec
        irmod = irsym.module()
        fn = cfg['fn']
        sel = [q for q in range(n) if mask[q]]
        maskbyte = sum((1 << q) for q in range(n) if mask[q])
        bufs = [['c', 'double_rw', [{'sym': str(x)} for row in cv for x in row]]]
        symmap = {str(x): x for row in cv for x in row}
        symmap['P'] = P
        if fn == 'dtw_dba_ptrs':
            for q in range(n):
                bufs.append(['ser%d' % q, 'double', [{'sym': str(x)} for row in sv[q] for x in row]])
                symmap.update({str(x): x for row in sv[q] for x in row})
            bufs.append(['ptrs', 'ptrs', ['ser%d' % q for q in range(n)]])
            bufs.append(['lens', 'idx', list(lens)])
            args = ['ptrs', n, 'lens', 'c', t, 'mask', 0, ndim, 'settings']
        else:
            bufs.append(['mat', 'double', [{'sym': str(x)} for q in range(n) for row in sv[q] for x in row]])
            for q in range(n):
                symmap.update({str(x): x for row in sv[q] for x in row})
            args = ['mat', n, lens[0], 'c', t, 'mask', 0, ndim, 'settings']
        bufs.append(['mask', 'u8', [maskbyte]])
        sett = {'window': 0 if window is None else window}
        if pen:
            sett['penalty'] = {'sym': 'P'}
        sp = {'settings': sett, 'bufs': bufs, 'calls': [[fn, args, 'void']]}
        rec = []

        def hook(M):
            def bp(M_, wps, i1, i2, l1, l2, st):
                length = M_.run('dtw_best_path', [wps, i1, i2, l1, l2, st])
                path = [(i1.obj.cells.get(i1.off + 8 * k), i2.obj.cells.get(i2.off + 8 * k)) for k in range(length)]
                rec.append((l2, path[::-1]))
                return length
            M.stubs['dtw_best_path'] = bp

        def run():
            del rec[:]
            res, M, bb = cspec.run_symbolic(irmod, sp, symmap, machine_hook=hook)
            cobj = bb['c'].obj
            out = [cobj.cells.get(8 * k) for k in range(t * ndim)]
            return out, [p_ for _, p_ in rec]
        ex = Explorer(assume, max_paths=3000, stats=stats, pairwise=True)
        results = []
        for p in ex.explore(run):
            if p.exc is not None and isinstance(p.exc, irsym.Violation):
                continue
            results.append((p, p.result if p.exc is None else None))
    sel = [q for q in range(n) if mask[q]]
    for p, res in results:
        facts = assume + p.facts()
        if res is None:
            if p.exc is not None:
                check(facts, z3.BoolVal(True), 'dba raises %s: %s' % (type(p.exc).__name__, str(p.exc)[:60]))
            continue
        new, paths = res
        if len(paths) != len(sel):
            check(facts, z3.BoolVal(True), 'one alignment per selected series (got %d for %d)' % (len(paths), len(sel)))
            continue
        # (a) every alignment is a valid, optimal warping path of (average, series)
        bads = []
        struct = None
        for q, path in zip(sel, paths):
            path = [(int(a), int(b)) for a, b in path]
            ok, why = spec.valid_path(path, t, lens[q], window, None)
            if not ok:
                struct = 'alignment of series %d is not a valid warping path (%s)' % (q, why)
                break
            bads.append(smt.er_neq(ER(spec.path_cost(path, Ds[q], penint)), opt[q]))
        if struct:
            check(facts, z3.BoolVal(True), struct)
            continue
        check(facts, z3.Or(*bads), 'the alignment used for each selected series is an optimal warping path', lemmas='pairwise')
        # (b) new[i] = arithmetic mean of the aligned points
        assoc = [[] for _ in range(t)]
        for q, path in zip(sel, paths):
            for (i, j) in path:
                assoc[int(i)].append(sv[q][int(j)])
        bads = []
        rng = []
        for i in range(t):
            for k in range(ndim):
                v = new[i * ndim + k] if eng == 'c' else new[i]
                vt = v.t if isinstance(v, SReal) else (v if isinstance(v, z3.ExprRef) else smt.rv(float(v)))
                pts = [a[k] for a in assoc[i]]
                if not pts:
                    bads.append(z3.BoolVal(True))
                    continue
                mean = z3.Sum(pts) * smt.rv(Fraction(1, len(pts)))
                bads.append(vt != mean)
                allsel = [sv[q][j][k] for q in sel for j in range(lens[q])]
                rng.append(z3.Or(z3.And(*[vt < x for x in allsel]), z3.And(*[vt > x for x in allsel])))
        check(facts, z3.Or(*bads), 'each position of the new average is the mean of the points aligned to it')
        check(facts, z3.Or(*rng), 'the new average stays within the value range of the selected series')
        # unselected series have no influence: result terms do not mention their variables
        unsel_names = {str(x) for q in range(n) if not mask[q] for row in sv[q] for x in row}
        mentions = set()
        for v in new:
            vt = v.t if isinstance(v, SReal) else v
            if isinstance(vt, z3.ExprRef):
                stack = [vt]
                seen = set()
                while stack:
                    e = stack.pop()
                    if e.get_id() in seen:
                        continue
                    seen.add(e.get_id())
                    if z3.is_const(e) and e.decl().kind() == z3.Z3_OP_UNINTERPRETED:
                        mentions.add(str(e))
                    stack.extend(e.children())
        check(facts, z3.BoolVal(bool(mentions & unsel_names)), 'unselected series have no influence on the result')
        # fixed point: all selected series identical to the average (only when shapes agree)
        if all(lens[q] == t for q in sel) and ndim == 1:
            same = [cv[i][0] == sv[q][i][0] for q in sel for i in range(t)]
            nv = [(new[i].t if isinstance(new[i], SReal) else new[i]) for i in range(t)]
            check(facts + same, z3.Or(*[nv[i] != cv[i][0] for i in range(t)]), 'a set of identical series is a fixed point', lemmas='pairwise')
        # (c) objective: sum of squared DTW distances does not increase (direct NRA query, small shapes only)
        if ndim == 1 and t * sum(lens[q] for q in sel) <= 4 and not pen:
            nv = [(new[i].t if isinstance(new[i], SReal) else new[i]) for i in range(t)]
            before = sum([opt[q].val for q in sel])
            after = 0
            for q in sel:
                Dn = [[(nv[i] - sv[q][j][0]) * (nv[i] - sv[q][j][0]) for j in range(lens[q])] for i in range(t)]
                after = after + spec.spec_dtw(Dn, t, lens[q], window, 0, None).val
            f2 = facts + smt.exact_defs(facts + [before])
            r_, m_ = smt.decide(stats, f2, after > before, lemmas=False, timeout_ms=20000)
            if r_ == 'sat':
                cexs.append(dict(meta, claim='the sum of squared DTW distances to the selected series does not increase', kind='series',
                                 inputs={k: smt.model_val(m_, v) for k, v in syms.items() if v is not None}, soft=True))
            elif r_ == 'unknown':
                incon += 1
        if sample is None:
            sample = {'harness': cfg['harness'], 't': t, 'lens': lens, 'mask': mask, 'alignments': [[list(x) for x in p_] for p_ in paths][:2],
                      'new_average_terms': [str(v)[:80] for v in new][:2]}
    incon += ex.inconclusive_paths
    return {'stats': stats.as_dict(), 'cex': cexs, 'inconclusive': incon, 'sample': sample, 'truncated': ex.truncated}


# --------------------------------------------------------------------------------------------------
def replay(cex):
    from dtaidistance import dtw, dtw_barycenter as bary
    import numpy as np
    inp = unj(cex['inputs'])
    t, lens, ndim = cex['t'], cex['lens'], cex.get('ndim', 1) or 1
    n = len(lens)
    eng = cex['eng']
    c = np.array([[float(inp.get('c%d_%d' % (i, k), 0)) for k in range(ndim)] for i in range(t)])
    S = [np.array([[float(inp.get('s%d_%d_%d' % (q, j, k), 0)) for k in range(ndim)] for j in range(lens[q])]) for q in range(n)]
    claim = cex['claim']
    try:
        if eng == 'loop':
            calls = []
            real = bary.dba

            def counting(*a, **k):
                calls.append(1)
                return real(*a, **k)
            bary.dba = counting
            try:
                avg = bary.dba_loop([s_[:, 0] for s_ in S], c=c[:, 0], max_it=cex['max_it'], thr=0.001, use_c=False)
            finally:
                bary.dba = real
            return {'reproduced': not (1 <= len(calls) <= cex['max_it']) or len(avg) != t, 'observed': {'steps': len(calls)}}
        mask = cex['mask']
        window = cex['window']
        pen = float(inp['P']) if cex.get('pen') else 0.0
        sel = [q for q in range(n) if mask[q]]
        if eng == 'py':
            kw = {} if window is None else {'window': window}
            new = np.asarray(bary.dba([s_[:, 0] for s_ in S], c[:, 0].copy(), mask=np.array(mask, dtype=bool), use_c=False, **kw), dtype=float).reshape(t, 1)
        else:
            from engine import native
            import ctypes
            L = native.lib()
            st = native.settings({'window': 0 if window is None else window, 'penalty': pen})
            cbuf = native.Fenced(c.flatten().tolist())
            m = (ctypes.c_ubyte * 1)(sum((1 << q) for q in range(n) if mask[q]))
            if cex['fn'] == 'dtw_dba_ptrs':
                sers = [native.Fenced(s_.flatten().tolist()) for s_ in S]
                ptrs = (native.c_double_p * n)(*[s_.ptr for s_ in sers])
                ln = (ctypes.c_ssize_t * n)(*lens)
                L.dtw_dba_ptrs(ptrs, n, ln, cbuf.ptr, t, m, 0, ndim, ctypes.byref(st))
            else:
                mat = native.Fenced([v for s_ in S for v in s_.flatten().tolist()])
                L.dtw_dba_matrix(mat.ptr, n, lens[0], cbuf.ptr, t, m, 0, ndim, ctypes.byref(st))
            new = np.array(cbuf.values()).reshape(t, ndim)
            if not cbuf.intact():
                return {'reproduced': True, 'observed': 'average buffer overrun'}
        # oracle: the update must be the mean over SOME optimal alignment per series
        from fractions import Fraction as F

        def all_opt_paths(q):
            D = dtwh.conc_D('series', 'squared euclidean', {'s1': c.tolist() if ndim > 1 else c[:, 0].tolist(), 's2': S[q].tolist() if ndim > 1 else S[q][:, 0].tolist()})
            best = spec.conc_dtw(D, t, lens[q], window, F(pen) ** 2, None)
            out = [p_ for p_ in spec.enum_paths(t, lens[q], window, None) if spec.path_cost(p_, D, F(pen) ** 2) == best]
            return out
        cands = [all_opt_paths(q) for q in sel]
        ok = False
        for combo in itertools.product(*cands):
            assoc = [[] for _ in range(t)]
            for q, path in zip(sel, combo):
                for (i, j) in path:
                    assoc[i].append(S[q][j])
            try:
                want = np.array([np.mean(a, axis=0) for a in assoc])
            except Exception:
                continue
            if want.shape == new.shape and np.allclose(want, new, rtol=1e-9, atol=1e-12):
                ok = True
                break
        return {'reproduced': not ok, 'observed': new.tolist(), 'expected': 'mean over an optimal alignment of each selected series'}
    except Exception as e:
        return {'reproduced': 'raises' in claim, 'observed': 'raised %r' % (e,)}
