"""C15 — hierarchical clustering: a partition built from monotone, bounded merges; tree shape; condensed vector to SciPy."""
import itertools
import sys
import types

import z3

from engine import smt, pysym, dtwh
from engine.pysym import SReal, Explorer
from engine.runner import jnum, unj, active_regions

ID = 'C15'
ENGINE = 'PYSYM'
TECHNIQUE = 'symbolic execution of Hierarchical.fit / HierarchicalTree.fit / LinkageTree.fit / Hooks on a symbolic upper-triangular distance matrix (ties and infinite entries reachable); merge log and result checked by z3'
BUDGET = {'quick': 300, 'thorough': 2400}
SOURCES = ['src/dtaidistance/clustering/hierarchical.py']
FUNCTIONS = ['Hierarchical.fit', 'HierarchicalTree.fit (merge hook building the linkage)', 'LinkageTree.fit (condensed vector handed to scipy linkage)',
             'Hooks.create_weighthook, Hooks.create_orderhook']
BOUNDS = {'quick': {'n': '2..3 (4 without hooks)', 'max_dist': 'inf | symbolic', 'hooks': 'none, weight hook (3 weightings), order hook', 'infinite entries': '0..1'},
          'thorough': {'n': '2..4 (all hook combinations)', 'max_dist': 'inf | symbolic', 'infinite entries': '0..2'}}
OUTSIDE = ["SciPy's linkage itself (stubbed by a recorder)", 'tree variants with infinite pairwise distances (a single rooted tree need not exist)', 'the distance-matrix function (C06: the class takes it as a parameter)', 'plotting', 'n above the bound']
ASSUMPTIONS = ['dists_fun returns an arbitrary symbolic upper-triangular matrix (>= 0, inf below/on the diagonal, as distance_matrix(only_triu=True) does)',
               'tqdm / logging are no-ops']
RULE = ('configuration = (class, n, max_dist kind, hooks, position of infinite entries, refit); the n(n-1)/2 distances and max_dist symbolic; '
        'one query per claim and execution path (ties fork).')
EXPLANATION = 'bounded symbolic model checking of the clustering loop, solver = z3'

MD = z3.Real('maxdist')


def tasks(tier, seed):
    ts = []
    for n in (2, 3, 4):
        hooksets = [('none',), ('weight', 'inc'), ('weight', 'dec'), ('weight', 'eq'), ('order',), ('weight+order',)]
        if n == 4 and tier == 'quick':
            hooksets = [('none',), ('weight', 'inc')]
        infsets = [()]
        pairs = list(itertools.combinations(range(n), 2))
        if n >= 3:
            infsets.append((pairs[1],))
        if tier == 'thorough' and n >= 3:
            infsets.append((pairs[0], pairs[-1]))
        for cls in ('Hierarchical', 'HierarchicalTree', 'LinkageTree'):
            for md in (('inf', 'sym') if cls == 'Hierarchical' else ('inf',)):
                for hk in (hooksets if cls != 'LinkageTree' else [('none',)]):
                    for infs in (infsets if cls == 'Hierarchical' else [()]):
                        ts.append({'harness': cls, 'cls': cls, 'n': n, 'md': md, 'hook': list(hk), 'infs': [list(p) for p in infs],
                                   'est': 6 ** n * (2 if md == 'sym' else 1)})
    for t in ts:
        t['tier'], t['seed'] = tier, seed
    ts.sort(key=lambda t: -t['est'])
    return ts


def run_task(cfg):
    hier = dtwh.load('clustering.hierarchical')
    np = pysym._np()
    hier.tqdm = None
    n, cls, md, hk, infs = cfg['n'], cfg['cls'], cfg['md'], cfg['hook'], [tuple(p) for p in cfg['infs']]
    stats = smt.Stats()
    cexs, incon, sample = [], 0, None
    pairs = list(itertools.combinations(range(n), 2))
    dv = {p: z3.Real('d_%d_%d' % p) for p in pairs if p not in infs}
    assume = [v >= 0 for v in dv.values()] + [MD > 0]
    syms = {str(v): v for v in dv.values()}
    syms['maxdist'] = MD if md == 'sym' else None
    meta = {'harness': cls, 'cls': cls, 'n': n, 'md': md, 'hook': hk, 'infs': [list(p) for p in infs]}
    series = [[0.0] * (2 + (i % 2)) for i in range(n)]

    def dval(a, b):
        p = (min(a, b), max(a, b))
        return dv.get(p)

    def dists_fun(s, **kw):
        m = np.full((n, n), float('inf'), dtype=object)
        for (a, b), v in dv.items():
            m[a, b] = SReal(v)
        return m

    def check(facts, neg, claim):
        nonlocal incon
        cx = dtwh.claim(stats, facts, neg, None, syms, dict(meta, claim=claim), lemmas=False, refine=False)
        if cx == 'unknown':
            incon += 1
        elif cx is not None:
            cexs.append(cx)

    recorded = {}
    fake_scipy = types.ModuleType('scipy.cluster.hierarchy')

    def fake_linkage(cond, method=None, metric=None):
        recorded['cond'] = list(cond)
        recorded['method'] = method
        return 'LINKAGE-TOKEN'
    fake_scipy.linkage = fake_linkage

    def run():
        log = []
        weights = None
        if 'weight' in hk[0]:
            kind = hk[1] if len(hk) > 1 else 'inc'
            weights = {i: {'inc': i + 1, 'dec': n - i, 'eq': 1}[kind] for i in range(n)}
        user_hook = None
        if weights is not None:
            inner = hier.Hooks.create_weighthook(weights, series)

            def user_hook(a, b, d):
                r = inner(a, b, d)
                log.append((a, b, d, r))
                return r
        else:
            def user_hook(a, b, d):
                log.append((a, b, d, None))
                return None
        order_hook = hier.Hooks.create_orderhook({i: (i * 2) % 3 + 1 for i in range(n)}) if 'order' in hk[0] else None
        maxd = SReal(MD) if md == 'sym' else float('inf')
        if cls == 'LinkageTree':
            real = sys.modules.get('scipy.cluster.hierarchy')
            sys.modules['scipy.cluster.hierarchy'] = fake_scipy
            try:
                model = hier.LinkageTree(dists_fun, {})
                r1 = model.fit(series)
                c1 = list(recorded['cond'])
                r2 = model.fit(series)
                c2 = list(recorded['cond'])
            finally:
                if real is not None:
                    sys.modules['scipy.cluster.hierarchy'] = real
            return {'cond': c1, 'cond2': c2, 'ret': r1}
        base = hier.Hierarchical(dists_fun, {}, max_dist=maxd, merge_hook=user_hook, order_hook=order_hook, show_progress=False)
        if cls == 'Hierarchical':
            res = base.fit(series)
            log1 = list(log)
            del log[:]
            if weights is not None:
                # the weight hook accumulates into its weights: a second fit is only comparable with fresh weights
                for i in range(n):
                    weights[i] = {'inc': i + 1, 'dec': n - i, 'eq': 1}[hk[1] if len(hk) > 1 else 'inc']
            res2 = base.fit(series)
            return {'clusters': res, 'log': log1, 'clusters2': res2, 'log2': list(log)}
        tree = hier.HierarchicalTree(base)
        res = tree.fit(series)
        link1 = list(tree.linkage)
        log1 = list(log)
        return {'clusters': res, 'log': log1, 'linkage': link1}
    ex = Explorer(assume, max_paths=3000, stats=stats)
    for p in ex.explore(run):
        facts = assume + p.facts()
        if p.exc is not None:
            check(facts, z3.BoolVal(True), '%s.fit raises %s: %s' % (cls, type(p.exc).__name__, str(p.exc)[:80]))
            continue
        out = p.result
        if cls == 'LinkageTree':
            want = [dval(a, b) for a, b in pairs]
            got = out['cond']
            def same(a, b):
                if isinstance(a, SReal) or isinstance(b, SReal):
                    return isinstance(a, SReal) and isinstance(b, SReal) and a.t.eq(b.t)
                return a == b
            bad = len(got) != len(want) or len(out['cond2']) != len(got) or not all(same(a, b) for a, b in zip(out['cond'], out['cond2']))
            for g, w in zip(got, want):
                if w is None:
                    bad = bad or not pysym.is_inf(g)
                else:
                    bad = bad or not (isinstance(g, SReal) and g.t.eq(w))
            check(facts, z3.BoolVal(bool(bad)), 'LinkageTree hands SciPy exactly the condensed upper triangle in row-major order')
            continue
        clusters, log = out['clusters'], out['log']
        # ---- partition keyed by members
        allm = sorted(x for s_ in clusters.values() for x in s_)
        struct = None
        if allm != list(range(n)):
            struct = 'clusters %r do not partition 0..%d' % ({k: sorted(v) for k, v in clusters.items()}, n - 1)
        elif any(k not in v for k, v in clusters.items()):
            struct = 'a cluster is keyed by a series it does not contain'
        elif len(log) != n - len(clusters):
            struct = '%d merges for %d clusters of %d series' % (len(log), len(clusters), n)
        if struct:
            check(facts, z3.BoolVal(True), 'fit returns a partition keyed by prototypes (%s)' % struct)
            continue
        # ---- merge order, bound, and reported distance = distance of the merged pair
        bads = []
        prev = None
        for (a, b, d, r) in log:
            dt = d.t if isinstance(d, SReal) else None
            if dt is None:
                bads.append(z3.BoolVal(True))
                continue
            w = dval(a, b)
            bads.append(z3.BoolVal(True) if w is None else dt != w)
            if md == 'sym':
                bads.append(dt > MD)
            if prev is not None:
                bads.append(prev > dt)
            prev = dt
        # ---- stop only when no two remaining prototypes are within max_dist
        keys = sorted(clusters)
        for a, b in itertools.combinations(keys, 2):
            w = dval(a, b)
            if w is not None:
                bads.append(w <= MD if md == 'sym' else z3.BoolVal(True))
        check(facts, z3.Or(*bads) if bads else z3.BoolVal(False),
              'merges in non-decreasing order, never above max_dist, reported distance = pair distance, no mergeable pair left')
        if cls == 'Hierarchical':
            same = {k: sorted(v) for k, v in out['clusters2'].items()} == {k: sorted(v) for k, v in clusters.items()}
            check(facts, z3.BoolVal(not same), 'a second fit on the same model object returns the same clusters')
        if cls == 'HierarchicalTree':
            link = out['linkage']
            st = None
            if len(clusters) != 1:
                st = 'tree variant did not merge down to one cluster'
            elif len(link) != n - 1:
                st = '%d linkage rows for %d series' % (len(link), n)
            else:
                children = [x for row in link for x in row[:2]]
                if sorted(children) != list(range(2 * n - 2)):
                    st = 'children %r: every node except the root must be a child exactly once' % (children,)
            if st:
                check(facts, z3.BoolVal(True), 'tree: n-1 merges forming a single rooted binary tree (%s)' % st)
            else:
                ld = [row[2].t if isinstance(row[2], SReal) else None for row in link]
                check(facts, z3.Or(*[a > b for a, b in zip(ld, ld[1:]) if a is not None and b is not None] or [z3.BoolVal(False)]),
                      'tree: linkage distances non-decreasing')
        if sample is None:
            sample = {'harness': cls, 'n': n, 'hooks': hk, 'max_dist': md, 'clusters': {str(k): sorted(v) for k, v in clusters.items()},
                      'merge_log': [(a, b, str(d)[:30]) for a, b, d, r in log]}
    incon += ex.inconclusive_paths
    return {'stats': stats.as_dict(), 'cex': cexs, 'inconclusive': incon, 'sample': sample, 'truncated': ex.truncated}


# --------------------------------------------------------------------------------------------------
def replay(cex):
    import numpy as np
    from dtaidistance.clustering import hierarchical as hier
    inp = unj(cex['inputs'])
    n, cls, md, hk = cex['n'], cex['cls'], cex['md'], cex['hook']
    infs = [tuple(p) for p in cex['infs']]
    pairs = list(itertools.combinations(range(n), 2))
    D = np.full((n, n), np.inf)
    for p in pairs:
        if p not in infs:
            D[p] = float(inp['d_%d_%d' % p])
    series = [np.zeros(2 + (i % 2)) for i in range(n)]
    maxd = float(inp['maxdist']) if md == 'sym' else float('inf')

    def mk(log):
        weights = None
        if 'weight' in hk[0]:
            kind = hk[1] if len(hk) > 1 else 'inc'
            weights = {i: {'inc': i + 1, 'dec': n - i, 'eq': 1}[kind] for i in range(n)}
        if weights is not None:
            inner = hier.Hooks.create_weighthook(weights, series)

            def hook(a, b, d):
                r = inner(a, b, d)
                log.append((a, b, d))
                return r
        else:
            def hook(a, b, d):
                log.append((a, b, d))
        oh = hier.Hooks.create_orderhook({i: (i * 2) % 3 + 1 for i in range(n)}) if 'order' in hk[0] else None
        return hier.Hierarchical(lambda s, **kw: D.copy(), {}, max_dist=maxd, merge_hook=hook, order_hook=oh, show_progress=False)
    try:
        if cls == 'LinkageTree':
            from scipy.cluster.hierarchy import linkage
            model = hier.LinkageTree(lambda s, **kw: D.copy(), {})
            got = model.fit(series)
            cond = np.array([D[p] for p in pairs])
            ok = np.allclose(got, linkage(cond, method='complete'), equal_nan=True) if np.all(np.isfinite(cond)) else True
            return {'reproduced': not ok, 'observed': np.asarray(got).tolist()}
        log = []
        model = mk(log)
        if cls == 'HierarchicalTree':
            tree = hier.HierarchicalTree(model)
            clusters = tree.fit(series)
            link = tree.linkage
        else:
            clusters = model.fit(series)
            link = None
    except Exception as e:
        return {'reproduced': 'raises' in cex['claim'], 'observed': 'raised %r' % (e,)}
    bad = None
    allm = sorted(x for s_ in clusters.values() for x in s_)
    if allm != list(range(n)) or any(k not in v for k, v in clusters.items()):
        bad = 'not a partition keyed by members'
    elif len(log) != n - len(clusters):
        bad = 'number of merges'
    else:
        prev = -1.0
        for a, b, d in log:
            if d > maxd or d < prev - 1e-12 or abs(D[min(a, b), max(a, b)] - d) > 1e-9:
                bad = 'merge (%d,%d,%r)' % (a, b, d)
            prev = d
        keys = sorted(clusters)
        for a, b in itertools.combinations(keys, 2):
            if D[a, b] <= maxd and np.isfinite(D[a, b]):
                bad = 'prototypes %d,%d still within max_dist' % (a, b)
        if cls == 'HierarchicalTree' and bad is None:
            children = [x for row in link for x in row[:2]]
            if len(clusters) != 1 or len(link) != n - 1 or sorted(children) != list(range(2 * n - 2)):
                bad = 'tree shape'
        if cls == 'Hierarchical' and bad is None and 'second fit' in cex['claim']:
            log2 = []
            m2 = mk(log2)
            c1 = m2.fit(series)
            m2.merge_hook = mk([]).merge_hook
            c2 = m2.fit(series)
            if {k: sorted(v) for k, v in c1.items()} != {k: sorted(v) for k, v in c2.items()}:
                bad = 'second fit differs'
    return {'reproduced': bad is not None, 'observed': {'clusters': {str(k): sorted(v) for k, v in clusters.items()}, 'log': [(a, b, float(d)) for a, b, d in log], 'why': bad}}
