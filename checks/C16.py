"""C16 — DBA k-means returns k clusters covering all series, every series with a nearest mean, bounded iteration count."""
import itertools
import math
import types
from fractions import Fraction

import z3

from engine import smt, pysym, spec, dtwh
from engine.pysym import SReal, Explorer
from engine.smt import ER
from engine.runner import jnum, unj, active_regions

ID = 'C16'
ENGINE = 'PYSYM'
TECHNIQUE = 'symbolic execution of KMeans.fit (serial) incl. k-means++ / random initialisation, assignment, empty-cluster repair, DBA update and final assignment on symbolic series; random draws are nondeterministic choices explored exhaustively; the returned partition is compared by z3 with oracle DTW distances to the returned means'
BUDGET = {'quick': 420, 'thorough': 1800}
SOURCES = ['src/dtaidistance/clustering/kmeans.py', 'src/dtaidistance/clustering/medoids.py', 'src/dtaidistance/dtw_barycenter.py', 'src/dtaidistance/dtw.py']
FUNCTIONS = ['KMeans.__init__/fit(use_parallel=False)', 'KMeans.kmeansplusplus_centers', 'kmeans._distance_with_params, _dba_loop_with_params', 'dtw_barycenter.dba_loop / dba']
BOUNDS = {'quick': {'n series': '3', 'series length': '1..2 (max_it = 1: length 1)', 'k': '2', 'max_it': '0, 1', 'max_dba_it': '1', 'initialisation': 'random, k-means++ (sample size 1; max_it = 0)',
                    'drop_stddev': 'None, 1', 'thr': '1e-4 and 0.5', 'dists_options': 'none; window=1, symbolic penalty (lengths 2,1,1 / 1,1,1); psi=1 (lengths 2,2,2; every 5th combination of initial random draws; plus all draws with two of the series pinned to [0,0] and [3,3])'},
          'thorough': {'n series': '3..4', 'series length': '1..2', 'k': '2', 'max_it': '0, 1, 2', 'initialisation': 'random, k-means++ (sample sizes 1, 2)'}}
OUTSIDE = ['max_it above the bound', 'use_parallel=True (multiprocessing)', 'use_c (the C routines are tied to the Python ones by C02/C12)', 'nb_prob_samples',
           'k-medoids initialisation (PyClustering)', 'floating point rounding']
ASSUMPTIONS = ['random.randint / np.random.randint / np.random.choice return any admissible value / any ordered selection without replacement (weights are ignored: over-approximation)',
               'oracle distances: spec_dtw between a series and a returned mean (means are symbolic terms)', 'tqdm, printing and logging are no-ops']
RULE = ('configuration = (n, lengths, initialisation, max_it, drop_stddev, thr); all series values symbolic, every random draw explored; one query per execution path.')
EXPLANATION = 'bounded symbolic model checking of the k-means loop, solver = z3'


def tasks(tier, seed):
    ts = []
    def add(lens, init, max_it, thr, drop, dopts='none', every=1, fixed=None):
        n = len(lens)
        ranges = [n, n - 1, n, n] if init == 'random' else [n, n]
        for draws in list(itertools.product(*[range(r_) for r_ in ranges]))[::every]:
            ts.append({'harness': 'fit/%s/it%d' % (init, max_it) + ('' if dopts == 'none' else '/' + dopts), 'lens': lens, 'init': init, 'max_it': max_it,
                       'thr': thr, 'drop': drop, 'dopts': dopts, 'draws': list(draws), 'fixed': fixed, 'est': 20 ** (max_it + 1) * sum(lens) * (50 if fixed else (10 if dopts != 'none' else 1))})
    for lens in ([1, 1, 1], [2, 1, 1]) + (([2, 2, 1], [1, 1, 1, 1]) if tier == 'thorough' else ()):
        for init in ('random', 'kmeanspp'):
            add(lens, init, 0, 1e-4, None)
    add([1, 1, 1], 'random', 1, 0.5, None)
    add([1, 1, 1], 'random', 1, 1e-4, None)
    add([1, 1, 1], 'random', 1, 1e-4, 1)
    add([1, 1, 1], 'kmeanspp', 1, 0.5, None)
    add([2, 1, 1], 'random', 1, 0.5, None)
    # DTW options handed to the distance routines: the nearest mean is judged under the same options
    add([2, 1, 1], 'random', 0, 1e-4, None, 'window1')
    add([2, 1, 1], 'random', 0, 1e-4, None, 'penalty')
    add([1, 1, 1], 'random', 1, 0.5, None, 'penalty')
    add([2, 2, 2], 'random', 0, 1e-4, None, 'psi1', every=(5 if tier == 'quick' else 1))   # quick: every 5th initial draw
    # two series pinned to constants, the third symbolic: few paths, so it stays cheap when the assignment code grows branches
    add([2, 2, 2], 'random', 0, 1e-4, None, 'psi1', fixed={'0': [0.0, 0.0], '1': [3.0, 3.0]})
    add([2, 2, 2], 'random', 0, 1e-4, None, 'psi1', fixed={'1': [0.0, 0.0], '2': [3.0, 3.0]})
    if tier == 'thorough':
        add([2, 2, 1], 'random', 0, 1e-4, None, 'window1')
        add([2, 2, 2], 'kmeanspp', 0, 1e-4, None, 'psi1')
        add([2, 2, 1], 'random', 1, 0.5, None, 'penalty')
        add([1, 1, 1], 'kmeanspp', 1, 1e-4, None)
        add([2, 2, 1], 'random', 1, 0.5, None)
        add([1, 1, 1], 'random', 2, 0.5, None)
        add([1, 1, 1, 1], 'random', 1, 0.5, None)
    for t in ts:
        t['tier'], t['seed'] = tier, seed
    ts.sort(key=lambda t: -t['est'])
    return ts


PREDRAW = []


def _draw(n, label):
    """next random draw: a value fixed by the task (parallelisation over the initial draws) or a nondeterministic choice"""
    if PREDRAW:
        v = PREDRAW.pop(0)
        if v >= n:
            raise pysym.Inconclusive('predrawn value outside the admissible range')
        return v
    return pysym.CUR.choose(n, label)


class _RandomShim(types.ModuleType):
    def __init__(self):
        super().__init__('random_shim')

    @staticmethod
    def randint(a, b):
        return a + _draw(b - a + 1, 'randint')

    @staticmethod
    def random():
        raise pysym.Realised('random.random')


class _NpRandom:
    @staticmethod
    def randint(lo, hi=None, size=None):
        if hi is None:
            lo, hi = 0, lo
        return lo + _draw(hi - lo, 'np.randint')

    @staticmethod
    def choice(a, size=None, replace=True, p=None):
        items = list(range(a)) if isinstance(a, int) else list(a)
        if size is None:
            return items[_draw(len(items), 'np.choice')]
        out = []
        pool = list(items)
        for _ in range(size):
            i = _draw(len(pool), 'np.choice')
            out.append(pool[i])
            if not replace:
                pool.pop(i)
        return pysym._np().array(out)


def run_task(cfg):
    dtw, innerdistance, ed, util, bary = dtwh.load('dtw', 'innerdistance', 'ed', 'util', 'dtw_barycenter')
    km = dtwh.load('clustering.kmeans')
    med = dtwh.load('clustering.medoids')
    np = pysym._np()
    km.tqdm = None
    km.random = _RandomShim()
    km.np.random = _NpRandom()
    km.print = lambda *a, **k: None
    bary.print = lambda *a, **k: None
    stats = smt.Stats()
    cexs, incon, sample = [], 0, None
    lens, init, max_it, thr, drop = cfg['lens'], cfg['init'], cfg['max_it'], cfg['thr'], cfg['drop']
    n, k = len(lens), 2
    sv = [[z3.Real('s%d_%d' % (q, j)) for j in range(lens[q])] for q in range(n)]
    syms = {str(x): x for row in sv for x in row}
    fixed = cfg.get('fixed') or {}
    for q_, vals in fixed.items():
        sv[int(q_)] = [smt.rv(v) for v in vals]
    syms = {str(x): x for row in sv for x in row if z3.is_const(x) and x.decl().kind() == z3.Z3_OP_UNINTERPRETED}
    series = [pysym.objarray([SReal(x) for x in row]) for row in sv]
    meta = {kk: cfg.get(kk) for kk in ('harness', 'lens', 'init', 'max_it', 'thr', 'drop', 'draws', 'dopts', 'fixed')}
    assume = []
    dopts = cfg.get('dopts', 'none')
    PEN = z3.Real('P')
    o_window, o_pen, o_psi = None, 0, None
    dists_options = {}
    if dopts == 'window1':
        dists_options, o_window = {'window': 1}, 1
    elif dopts == 'penalty':
        dists_options, o_pen = {'penalty': SReal(PEN)}, pysym.square_term(PEN)
        assume.append(PEN >= 0)
        syms['P'] = PEN
    elif dopts == 'psi1':
        dists_options, o_psi = {'psi': 1}, 1

    def run():
        del PREDRAW[:]
        PREDRAW.extend(cfg.get('draws', []))
        model = km.KMeans(k=k, max_it=max_it, max_dba_it=1, thr=thr, drop_stddev=drop, dists_options=dict(dists_options), show_progress=False,
                          initialize_with_kmeanspp=(init == 'kmeanspp'), initialize_with_kmedoids=False,
                          initialize_sample_size=1 if init == 'kmeanspp' else None)
        mon = []
        clusters, it = model.fit(list(series), use_parallel=False, monitor_distances=lambda cd, final: mon.append((list(cd), final)) or True)
        means = [[x for x in m] for m in model.means]
        return {kk: sorted(v) for kk, v in clusters.items()}, it, means, mon[-1] if mon else None
    ex = Explorer(assume, max_paths=4000, stats=stats, pairwise=True)
    for p in ex.explore(run):
        facts = assume + p.facts()
        stats.queries += 0
        if p.exc is not None:
            if isinstance(p.exc, (pysym.Realised, NotImplementedError)):
                incon += 1
                continue
            cx = dtwh.claim(stats, facts, z3.BoolVal(True), None, syms, dict(meta, claim='KMeans.fit raises %s: %s' % (type(p.exc).__name__, str(p.exc)[:80])), refine=False)
            if cx not in (None, 'unknown'):
                cx['kind'] = 'series'
                cexs.append(cx)
            continue
        clusters, it, means, mon = p.result
        struct = None
        if sorted(clusters) != list(range(k)):
            struct = 'keys %r are not 0..k-1' % (sorted(clusters),)
        elif sorted(x for v in clusters.values() for x in v) != list(range(n)):
            struct = 'clusters %r do not partition the series' % (clusters,)
        elif len(means) != k:
            struct = '%d means for k=%d' % (len(means), k)
        elif it > max_it + 1:
            struct = 'reported %d iterations for max_it=%d' % (it, max_it)
        if struct:
            cx = dtwh.claim(stats, facts, z3.BoolVal(True), None, syms, dict(meta, claim='fit returns k index sets partitioning the series and k means (%s)' % struct), refine=False)
            if cx not in (None, 'unknown'):
                cx['kind'] = 'series'
                cexs.append(cx)
            continue
        # nearest mean: oracle distance between each series and each returned mean
        bad = []
        mt = [[(x.t if isinstance(x, SReal) else smt.rv(float(x))) for x in m] for m in means]
        dist = {}
        for i in range(n):
            for j in range(k):
                D = [[pysym.square_term(a - b) for b in mt[j]] for a in sv[i]]
                dist[(i, j)] = spec.spec_dtw(D, lens[i], len(mt[j]), o_window, o_pen, o_psi)
        for j, members in clusters.items():
            for i in members:
                for l in range(k):
                    if l != j:
                        bad.append(z3.Not(smt.er_le(dist[(i, j)], dist[(i, l)])))
        cx = dtwh.claim(stats, facts, z3.Or(*bad) if bad else z3.BoolVal(False), None, syms,
                        dict(meta, claim='every series lies in the cluster of a mean that is nearest to it'), lemmas='pairwise', refine=False)
        if cx == 'unknown':
            incon += 1
        elif cx is not None:
            cx['kind'] = 'series'
            cexs.append(cx)
        if sample is None:
            sample = {'harness': cfg['harness'], 'lens': lens, 'clusters': {str(a): b for a, b in clusters.items()}, 'iterations': it,
                      'means': [[str(x)[:40] for x in m] for m in means]}
    incon += ex.inconclusive_paths
    return {'stats': stats.as_dict(), 'cex': cexs, 'inconclusive': incon, 'sample': sample, 'truncated': ex.truncated}


# --------------------------------------------------------------------------------------------------
def replay(cex):
    """all random seeds of a small range are tried: the claim is for every seed"""
    import random
    import numpy as np
    from dtaidistance.clustering.kmeans import KMeans
    from dtaidistance import dtw
    inp = unj(cex['inputs'])
    lens, init, max_it, thr, drop = cex['lens'], cex['init'], cex['max_it'], cex['thr'], cex['drop']
    n, k = len(lens), 2
    fixed = cex.get('fixed') or {}
    series = [np.array([float(fixed[str(q)][j]) if str(q) in fixed else float(inp.get('s%d_%d' % (q, j), 0)) for j in range(lens[q])]) for q in range(n)]
    dopts = cex.get('dopts') or 'none'
    dists_options = {'none': {}, 'window1': {'window': 1}, 'penalty': {'penalty': float(inp.get('P', 0))}, 'psi1': {'psi': 1}}[dopts]
    worst = None
    for seed in range(40):
        random.seed(seed)
        np.random.seed(seed)
        try:
            model = KMeans(k=k, max_it=max_it, max_dba_it=1, thr=thr, drop_stddev=drop, dists_options=dict(dists_options), show_progress=False,
                           initialize_with_kmeanspp=(init == 'kmeanspp'), initialize_with_kmedoids=False,
                           initialize_sample_size=1 if init == 'kmeanspp' else None)
            clusters, it = model.fit(list(series), use_parallel=False)
        except Exception as e:
            if 'raises' in cex['claim']:
                return {'reproduced': True, 'observed': 'seed %d raised %r' % (seed, e)}
            continue
        bad = None
        if sorted(clusters) != list(range(k)) or sorted(x for v in clusters.values() for x in v) != list(range(n)) or len(model.means) != k or it > max_it + 1:
            bad = 'structure'
        else:
            for j, members in clusters.items():
                for i in members:
                    dj = dtw.distance(series[i], np.asarray(model.means[j], dtype=float), **dists_options)
                    for l in range(k):
                        dl = dtw.distance(series[i], np.asarray(model.means[l], dtype=float), **dists_options)
                        if dl < dj * (1 - 1e-9) - 1e-12:
                            bad = 'series %d is in cluster %d (d=%r) but mean %d is nearer (d=%r)' % (i, j, dj, l, dl)
        if bad:
            return {'reproduced': True, 'observed': {'seed': seed, 'clusters': {str(a): sorted(b) for a, b in clusters.items()}, 'why': bad}}
    return {'reproduced': False, 'observed': 'property held for seeds 0..39'}
