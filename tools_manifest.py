#!/usr/bin/env python3
"""regenerates MANIFEST.json from the check modules (run after adding / changing a check)"""
import json, os, sys, importlib
ROOT = os.path.dirname(os.path.abspath(__file__))
sys.path.insert(0, ROOT)
props = [json.loads(l) for l in open(os.path.join(ROOT, 'properties.jsonl'))]
NA = json.load(open(os.path.join(ROOT, 'not_applicable.json')))
checks, na = [], []
for p in props:
    pid = p['id']
    path = os.path.join(ROOT, 'checks', pid + '.py')
    if pid in NA or not os.path.exists(path):
        na.append({'property_id': pid, 'reason': NA.get(pid, 'check not built yet (work in progress; see DESIGN.md section 3)')})
        continue
    src = open(path).read()
    ns = {}
    # cheap metadata read without importing z3
    import ast
    tree = ast.parse(src)
    meta = {}
    for node in tree.body:
        if isinstance(node, ast.Assign) and len(node.targets) == 1 and isinstance(node.targets[0], ast.Name):
            n = node.targets[0].id
            if n in ('LEVEL_TEXT', 'LEVEL_NOTE', 'TECHNIQUE', 'ENGINE', 'DESIGN_REF'):
                meta[n] = ast.literal_eval(node.value)
    checks.append({
        'property_id': pid,
        'quick_cmd': './check %s --tier quick' % pid,
        'thorough_cmd': './check %s --tier thorough' % pid,
        'evidence_file': 'evidence/%s.json' % pid,
        'replay_cmd_template': './check %s --replay {path}' % pid,
        'engine': meta.get('ENGINE', 'PYSYM'),
        'level_claimed': {'category': 'model_checking',
                          'text': meta.get('LEVEL_TEXT', 'bounded symbolic model checking: the SMT solver decides the assertion for every real-valued input inside the stated structural box; a sat answer is replayed on the real code before it is reported'),
                          'design_ref': meta.get('DESIGN_REF', 'DESIGN.md section 3, ' + pid)},
        'level_note': meta.get('LEVEL_NOTE', 'values are mathematical reals (no rounding); structural sizes bounded as stated in the evidence file; stubs listed in evidence.assumptions'),
        'technique': meta.get('TECHNIQUE', 'symbolic execution of the real code + SMT (z3)'),
    })
m = {
    'version': 1,
    'setup_cmd': 'sh ./setup.sh',
    'hooks': {'guard': 'DTAIDISTANCE_VERIF', 'enable': 'none needed: checks read /repo sources directly (module-global substitution, fresh clang IR, ctypes); no hook was added to /repo, the guard name is reserved',
              'baseline_off_cmd': 'cd /repo && /venv/bin/python -m pytest -ra -q -p no:cacheprovider --timeout=900 --continue-on-collection-errors',
              'source_commits': [], 'add_only': True},
    'engines': [
        {'name': 'PYSYM', 'path': 'engine/pysym.py', 'kind_free_text': 'symbolic execution of the real Python modules on z3-backed proxy values, re-execution DFS path explorer',
         'serves_properties': [c['property_id'] for c in checks if 'PYSYM' in c['engine']]},
        {'name': 'IRSYM', 'path': 'engine/irsym.py', 'kind_free_text': 'symbolic interpreter for the LLVM IR that clang emits for the real C sources, with memory-safety monitors',
         'serves_properties': [c['property_id'] for c in checks if 'IRSYM' in c['engine']]},
        {'name': 'CrossHair', 'path': 'contracts/', 'kind_free_text': 'crosshair-tool 0.0.110 on pure integer / string code',
         'serves_properties': [c['property_id'] for c in checks if 'CrossHair' in c['engine']]},
    ],
    'checks': checks,
    'not_applicable': na,
    'notes': 'All checks: exit 0 held / exit 1 + VIOLATION line (replay-confirmed) / exit 3 harness error. known_findings.json lists fixed and known defects.',
}
json.dump(m, open(os.path.join(ROOT, 'MANIFEST.json'), 'w'), indent=1)
print('checks:', [c['property_id'] for c in checks], 'n/a:', len(na))
