#!/bin/sh
# offline setup: overlay venv on /venv (the repository's interpreter) + z3-solver + crosshair-tool from the wheelhouse
set -e
HERE="$(cd "$(dirname "$0")" && pwd)"
cd "$HERE"
if [ ! -x .venv/bin/python ] || ! .venv/bin/python -c "import z3, crosshair, numpy" 2>/dev/null; then
  rm -rf .venv
  /venv/bin/python -m venv .venv
  echo "import site; site.addsitedir('/venv/lib/python3.12/site-packages')" > .venv/lib/python3.12/site-packages/_base.pth
  .venv/bin/pip install -q --no-index --find-links /opt/veriftools/wheels z3-solver crosshair-tool
fi
.venv/bin/python -c "import z3, crosshair, numpy; print('setup ok: z3', z3.get_version_string())"
