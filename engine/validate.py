"""Translator validation: concrete traces through the encodings vs. the real builds.

PYSYM: the real Python routine is run on proxies whose values are pinned to random concrete numbers (one path); the result term is
evaluated with the exact meaning of the abstracted functions and compared with the same routine run on plain floats in a clean
interpreter (unpatched modules, real NumPy).
IRSYM: the IR interpreter runs the C kernel on concrete doubles and is compared bit-for-bit with the library compiled from the same
sources (ctypes).
A mismatch means the encoding misrepresents the code: the task crashes (harness error, exit 3) - it is never a property verdict."""
import json
import math
import os
import random
import subprocess
import sys
from fractions import Fraction

import z3

from . import smt, pysym
from .pysym import SReal


def eval_term(t, env):
    """evaluate a z3 real/bool term under env {name: float} with SQ/SQRT/EXP/DIV/CEIL interpreted exactly (floats)"""
    cache = {}

    def ev(e):
        k = e.get_id()
        if k in cache:
            return cache[k]
        v = ev1(e)
        cache[k] = v
        return v

    def ev1(e):
        if z3.is_rational_value(e) or z3.is_int_value(e):
            return float(smt.frac_of(e))
        if z3.is_algebraic_value(e):
            return float(smt.frac_of(e))
        if z3.is_true(e):
            return True
        if z3.is_false(e):
            return False
        d = e.decl()
        kind = d.kind()
        ch = e.children()
        if kind == z3.Z3_OP_UNINTERPRETED:
            n = d.name()
            if not ch:
                return env[n]
            a = [ev(c) for c in ch]
            if n == 'SQ':
                return a[0] * a[0]
            if n == 'SQRT':
                return math.sqrt(a[0])
            if n == 'EXP':
                return math.exp(a[0])
            if n == 'DIV':
                return a[0] / a[1]
            if n == 'CEIL':
                return float(math.ceil(a[0]))
            raise KeyError('uninterpreted ' + n)
        if kind == z3.Z3_OP_ITE:
            return ev(ch[1]) if ev(ch[0]) else ev(ch[2])
        a = [ev(c) for c in ch]
        if kind == z3.Z3_OP_ADD:
            return sum(a)
        if kind == z3.Z3_OP_SUB:
            r = a[0]
            for x in a[1:]:
                r -= x
            return r
        if kind == z3.Z3_OP_UMINUS:
            return -a[0]
        if kind == z3.Z3_OP_MUL:
            r = 1.0
            for x in a:
                r *= x
            return r
        if kind in (z3.Z3_OP_DIV, z3.Z3_OP_IDIV):
            return a[0] / a[1]
        if kind == z3.Z3_OP_POWER:
            return a[0] ** a[1]
        if kind == z3.Z3_OP_TO_REAL:
            return float(a[0])
        if kind == z3.Z3_OP_LE:
            return a[0] <= a[1]
        if kind == z3.Z3_OP_LT:
            return a[0] < a[1]
        if kind == z3.Z3_OP_GE:
            return a[0] >= a[1]
        if kind == z3.Z3_OP_GT:
            return a[0] > a[1]
        if kind == z3.Z3_OP_EQ:
            return a[0] == a[1]
        if kind == z3.Z3_OP_DISTINCT:
            return len(set(a)) == len(a)
        if kind == z3.Z3_OP_AND:
            return all(a)
        if kind == z3.Z3_OP_OR:
            return any(a)
        if kind == z3.Z3_OP_NOT:
            return not a[0]
        if kind == z3.Z3_OP_IMPLIES:
            return (not a[0]) or a[1]
        raise KeyError('operator %s' % d.name())
    return ev(t)


def value_of(x, env):
    """concrete value of a PYSYM result (SReal / number / inf / nested containers)"""
    if isinstance(x, SReal):
        return eval_term(x.t, env)
    if isinstance(x, (list, tuple)):
        return [value_of(v, env) for v in x]
    try:
        import numpy as np
        if isinstance(x, np.ndarray):
            return [value_of(v, env) for v in x.tolist()]
    except ImportError:
        pass
    if isinstance(x, (int, float)):
        return float(x)
    return x


def close(a, b, rel=1e-9):
    if isinstance(a, (list, tuple)) and isinstance(b, (list, tuple)):
        return len(a) == len(b) and all(close(x, y, rel) for x, y in zip(a, b))
    if isinstance(a, (list, tuple)) or isinstance(b, (list, tuple)):
        return False
    if a is None or b is None:
        return a is b
    a, b = float(a), float(b)
    if math.isinf(a) or math.isinf(b):
        return a == b
    if math.isnan(a) or math.isnan(b):
        return math.isnan(a) and math.isnan(b)
    return abs(a - b) <= rel * max(1.0, abs(a), abs(b))


def run_real(calls, repo_src, env_extra=None):
    """calls: list of [module, function, args, kwargs] with JSON values; executed in a clean interpreter on the working tree.
    returns list of JSON results ('inf' for infinity, {'exc': name} for exceptions)"""
    prog = r'''
import json, sys, math, importlib
sys.path.insert(0, sys.argv[1])
calls = json.loads(sys.stdin.read())
def js(v):
    try:
        import numpy as np
        if isinstance(v, np.ndarray): v = v.tolist()
        if isinstance(v, (np.floating, np.integer)): v = v.item()
    except ImportError: pass
    if isinstance(v, (list, tuple)): return [js(x) for x in v]
    if isinstance(v, float):
        if math.isinf(v): return 'inf' if v > 0 else '-inf'
        if math.isnan(v): return 'nan'
    if hasattr(v, 'tolist'): return js(v.tolist())
    return v
out = []
for mod, fn, args, kw in calls:
    try:
        f = importlib.import_module(mod)
        for part in fn.split('.'): f = getattr(f, part)
        out.append(js(f(*args, **kw)))
    except Exception as e:
        out.append({'exc': type(e).__name__})
print('@@' + json.dumps(out))
'''
    env = dict(os.environ)
    env.pop('DTAIDISTANCE_TESTWITHOUTNUMPY', None)
    env.update(env_extra or {})
    p = subprocess.run([sys.executable, '-c', prog, repo_src], input=json.dumps(calls), capture_output=True, text=True, timeout=600, env=env)
    for line in p.stdout.splitlines():
        if line.startswith('@@'):
            return [_unjs(v) for v in json.loads(line[2:])]
    raise RuntimeError('real run failed: ' + p.stderr[-600:])


def _unjs(v):
    if isinstance(v, list):
        return [_unjs(x) for x in v]
    if v == 'inf':
        return float('inf')
    if v == '-inf':
        return float('-inf')
    if v == 'nan':
        return float('nan')
    return v


def pysym_trace(fn, names, values, stats=None):
    """run fn() (real routine on proxies named `names`) with the proxies pinned to `values`; returns concrete result or {'exc': name}"""
    env = dict(zip(names, values))
    ex = pysym.Explorer([], max_paths=4, stats=stats)
    ex.concrete_env = {n: float(v) for n, v in env.items()}
    paths = list(ex.explore(fn))
    if len(paths) != 1:
        raise RuntimeError('pinned inputs gave %d paths' % len(paths))
    p = paths[0]
    if p.exc is not None:
        return {'exc': type(p.exc).__name__}
    return value_of(p.result, {n: float(v) for n, v in env.items()})


def grid_values(rnd, n):
    """dyadic values: exact in doubles and rationals, with ties"""
    return [rnd.choice((-2.0, -1.0, -0.5, 0.0, 0.25, 0.5, 1.0, 1.5, 2.0, 3.0)) for _ in range(n)]
