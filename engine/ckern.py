"""Drivers for the exported C routines on the IRSYM machine, with caller buffers of exactly the documented size.
The call sequences transcribe dtw_cc.pyx (DESIGN 2.8)."""
import math

import z3

from . import irsym, pysym, smt
from .dtwh import flat_terms

INF = float('inf')


def wps_dims(irmod, l1, l2, cs):
    """(length, width) of the compact warping-paths buffer, computed by the C code itself"""
    M = irsym.Machine(irmod)
    st = irsym.mk_settings(M, **_concrete_settings(cs))
    length = M.run('dtw_settings_wps_length', [l1, l2, st])
    width = M.run('dtw_settings_wps_width', [l1, l2, st])
    return length, width


def _concrete_settings(cs):
    """structure-only copy of the settings (symbolic thresholds replaced by 1.0: they do not influence sizes)"""
    out = {}
    for k, v in cs.items():
        out[k] = 1.0 if isinstance(v, z3.ExprRef) else v
    return out


class Wps:
    """result of one run of the C warping-paths kernel"""

    def __init__(self, M, d, buf, length, width, l1, l2, st, cs, direct_full):
        self.M, self.d, self.buf, self.length, self.width = M, d, buf, length, width
        self.l1, self.l2, self.st, self.cs, self.direct_full = l1, l2, st, cs, direct_full

    def compact_cells(self):
        return [self.buf.obj.cells.get(8 * k) for k in range(self.length)]


def warping_paths(irmod, mode, cs, keep_int_repr=False, psi_neg=True, machine=None, affinity=None, fill=None):
    """dtw_warping_paths(_ndim) into a buffer of exactly wps_length cells (as dtw_cc.warping_paths_compact does).
    `fill` pre-initialises the caller's buffer like numpy.full(..., inf) in dtw.warping_paths_fast."""
    M = machine or irsym.Machine(irmod)
    l1, l2 = mode.r, mode.c
    length, width = wps_dims(irmod, l1, l2, cs)
    buf = M.new_buffer('wps', 8 * length, kind='output', fill=fill)
    s1 = M.new_doubles('s1', flat_terms(mode.a))
    s2 = M.new_doubles('s2', flat_terms(mode.b))
    st = irsym.mk_settings(M, **cs)
    if affinity is None:
        if mode.ndim == 1:
            d = M.run('dtw_warping_paths', [buf, s1, l1, s2, l2, True, keep_int_repr, psi_neg, st])
        else:
            d = M.run('dtw_warping_paths_ndim', [buf, s1, l1, s2, l2, True, keep_int_repr, psi_neg, mode.ndim, st])
    else:
        only_triu, gamma, tau, delta, delta_factor = affinity
        if mode.ndim == 1:
            d = M.run('dtw_warping_paths_affinity', [buf, s1, l1, s2, l2, True, keep_int_repr, psi_neg, only_triu, gamma, tau,
                                                    delta, delta_factor, st])
        else:
            d = M.run('dtw_warping_paths_affinity_ndim', [buf, s1, l1, s2, l2, True, keep_int_repr, psi_neg, only_triu,
                                                         mode.ndim, gamma, tau, delta, delta_factor, st])
    return Wps(M, d, buf, length, width, l1, l2, st, cs, width == l2 + 1)


def read_matrix(ptr, rows, cols):
    cells = ptr.obj.cells
    return [[cells.get(8 * (i * cols + j)) for j in range(cols)] for i in range(rows)]


def expand(w, affinity=False):
    """dtw_expand_wps into an exactly sized (l1+1)x(l2+1) buffer -> matrix (list of lists)"""
    M = w.M
    full = M.new_buffer('full', 8 * (w.l1 + 1) * (w.l2 + 1), kind='output')
    M.run('dtw_expand_wps_affinity' if affinity else 'dtw_expand_wps', [w.buf, full, w.l1, w.l2, w.st])
    return read_matrix(full, w.l1 + 1, w.l2 + 1)


def expand_slice(w, rb, re_, cb, ce, affinity=False):
    M = w.M
    full = M.new_buffer('slice', 8 * (re_ - rb) * (ce - cb), kind='output')
    M.run('dtw_expand_wps_slice_affinity' if affinity else 'dtw_expand_wps_slice', [w.buf, full, w.l1, w.l2, rb, re_, cb, ce, w.st])
    return read_matrix(full, re_ - rb, ce - cb)


def full_matrix(w, affinity=False):
    """what dtw_cc.warping_paths hands back: the buffer itself when the compact layout is the full layout
    (req_length == rows*cols and req_width == cols), else the expansion"""
    if w.length == (w.l1 + 1) * (w.l2 + 1) and w.width == w.l2 + 1:
        return read_matrix(w.buf, w.l1 + 1, w.l2 + 1)
    return expand(w, affinity)


def _read_path(M, i1, i2, n):
    if isinstance(n, z3.ExprRef):
        raise irsym.Unsupported('symbolic path length')
    out = []
    for k in range(n):
        out.append((i1.obj.cells.get(8 * k), i2.obj.cells.get(8 * k)))
    out.reverse()
    return out


def best_path(w, variant='dtw_best_path', extra=()):
    """dtw_best_path* on a compact matrix into index arrays of exactly l1+l2 entries; returns list of (i,j)"""
    M = w.M
    n = w.l1 + w.l2
    i1 = M.new_buffer('i1', 8 * n, kind='output')
    i2 = M.new_buffer('i2', 8 * n, kind='output')
    if variant == 'dtw_best_path':
        length = M.run('dtw_best_path', [w.buf, i1, i2, w.l1, w.l2, w.st])
    elif variant == 'dtw_best_path_customstart':
        length = M.run('dtw_best_path_customstart', [w.buf, i1, i2, w.l1, w.l2, extra[0], extra[1], w.st])
    elif variant == 'dtw_best_path_isclose':
        length = M.run('dtw_best_path_isclose', [w.buf, i1, i2, w.l1, w.l2, extra[0], extra[1], w.st])
    elif variant == 'dtw_best_path_affinity':
        length = M.run('dtw_best_path_affinity', [w.buf, i1, i2, w.l1, w.l2, extra[0], extra[1], w.st])
    else:
        raise KeyError(variant)
    return _read_path(M, i1, i2, length)


def warping_path(irmod, mode, cs, machine=None):
    """dtw_warping_path(_ndim): (distance, path)"""
    M = machine or irsym.Machine(irmod)
    l1, l2 = mode.r, mode.c
    n = l1 + l2
    s1 = M.new_doubles('s1', flat_terms(mode.a))
    s2 = M.new_doubles('s2', flat_terms(mode.b))
    i1 = M.new_buffer('i1', 8 * n, kind='output')
    i2 = M.new_buffer('i2', 8 * n, kind='output')
    ln = M.new_buffer('length_i', 8, kind='output')
    st = irsym.mk_settings(M, **cs)
    if mode.ndim == 1:
        d = M.run('dtw_warping_path', [s1, l1, s2, l2, i1, i2, ln, st])
    else:
        d = M.run('dtw_warping_path_ndim', [s1, l1, s2, l2, i1, i2, ln, mode.ndim, st])
    length = ln.obj.cells.get(0)
    return d, _read_path(M, i1, i2, length), M
