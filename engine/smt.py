"""SMT helpers shared by PYSYM and IRSYM.

* exact conversion of Python numbers to z3 reals,
* uninterpreted SQ / SQRT / EXP with quantifier-free lemma instantiation,
* `ER` : extended reals (a real term or +infinity, infinity-ness possibly symbolic) used by the oracles,
* `Stats` : per task bookkeeping of discharged queries,
* `decide` : one assertion query = (path condition, negated claim) -> unsat / sat(model) / unknown.
"""
import math
import time
from fractions import Fraction

import z3

INF = float('inf')

R = z3.RealSort()
SQ_F = z3.Function('SQ', R, R)        # abstraction of t -> t*t   (series mode)
SQRT_F = z3.Function('SQRT', R, R)    # sqrt on non-negative reals
EXP_F = z3.Function('EXP', R, R)
DIV_F = z3.Function('DIV', R, R, R)     # abstraction of a / b for symbolic b (b != 0)

QUERY_TIMEOUT_MS = 60000
BRANCH_TIMEOUT_MS = 20000


def rv(x):
    """Python number -> exact z3 real value."""
    if isinstance(x, bool):
        raise TypeError('bool is not a real')
    if isinstance(x, int):
        return z3.RealVal(x)
    if isinstance(x, Fraction):
        return z3.Q(x.numerator, x.denominator)
    if isinstance(x, float):
        if math.isinf(x) or math.isnan(x):
            raise ValueError('non finite')
        f = Fraction(x)
        return z3.Q(f.numerator, f.denominator)
    try:
        import numpy as _np
        if isinstance(x, _np.integer):
            return z3.RealVal(int(x))
        if isinstance(x, _np.floating):
            return rv(float(x))
    except ImportError:
        pass
    raise TypeError(type(x))


def frac_of(v):
    """z3 numeral (rational / algebraic) -> Fraction (algebraic numbers are approximated)."""
    if z3.is_int_value(v):
        return Fraction(v.as_long())
    if z3.is_rational_value(v):
        return Fraction(v.numerator_as_long(), v.denominator_as_long())
    if z3.is_algebraic_value(v):
        a = v.approx(30)
        return Fraction(a.numerator_as_long(), a.denominator_as_long())
    raise TypeError(str(v))


def model_val(m, t):
    return frac_of(m.eval(t, model_completion=True))


def zmin(a, b):
    return z3.If(b < a, b, a)


def zmax(a, b):
    return z3.If(b > a, b, a)


def zabs(a):
    return z3.If(a >= 0, a, -a)


# --------------------------------------------------------------------------------------------------
# Extended reals for oracles
# --------------------------------------------------------------------------------------------------
def _b(x):
    return z3.BoolVal(x) if isinstance(x, bool) else x


class ER:
    """value in R u {+inf}.  `inf` is a Python bool or z3 Bool; `val` is a z3 real (meaningless if inf)."""
    __slots__ = ('inf', 'val')

    def __init__(self, val=None, inf=False):
        self.inf = inf
        self.val = val if val is not None else z3.RealVal(0)

    @staticmethod
    def infinity():
        return ER(None, True)

    @staticmethod
    def of(x):
        if isinstance(x, ER):
            return x
        if isinstance(x, float) and math.isinf(x):
            assert x > 0
            return ER.infinity()
        if isinstance(x, (int, float, Fraction)):
            return ER(rv(x))
        if hasattr(x, 't'):      # SReal proxy
            return ER(x.t)
        return ER(x)

    def is_conc_inf(self):
        return self.inf is True

    def is_conc_fin(self):
        return self.inf is False

    def __add__(self, o):
        o = ER.of(o)
        if self.inf is True or o.inf is True:
            return ER.infinity()
        if self.inf is False and o.inf is False:
            return ER(self.val + o.val)
        return ER(self.val + o.val, z3.simplify(z3.Or(_b(self.inf), _b(o.inf))))

    __radd__ = __add__

    def guard(self, cond):
        """value if cond else +inf   (cond: z3 Bool or bool)"""
        if cond is True:
            return self
        if cond is False:
            return ER.infinity()
        if self.inf is True:
            return self
        return ER(self.val, z3.simplify(z3.Or(_b(self.inf), z3.Not(cond))))


def er_min2(a, b):
    a, b = ER.of(a), ER.of(b)
    if a.inf is True:
        return b
    if b.inf is True:
        return a
    if a.inf is False and b.inf is False:
        return ER(zmin(a.val, b.val))
    ai, bi = _b(a.inf), _b(b.inf)
    val = z3.If(ai, b.val, z3.If(bi, a.val, zmin(a.val, b.val)))
    return ER(val, z3.simplify(z3.And(ai, bi)))


def er_min(xs):
    xs = list(xs)
    cur = ER.infinity()
    for x in xs:
        cur = er_min2(cur, x)
    return cur


def er_neq(impl, spec):
    """z3 formula: implementation result `impl` (ER with *concrete* inf flag or symbolic) differs from spec."""
    impl, spec = ER.of(impl), ER.of(spec)
    ii, si = _b(impl.inf), _b(spec.inf)
    return z3.simplify(z3.Or(ii != si, z3.And(z3.Not(ii), impl.val != spec.val)))


def er_le(a, b):
    """a <= b on extended reals as formula."""
    a, b = ER.of(a), ER.of(b)
    ai, bi = _b(a.inf), _b(b.inf)
    return z3.simplify(z3.Or(bi, z3.And(z3.Not(ai), a.val <= b.val)))


# --------------------------------------------------------------------------------------------------
# lemma instantiation for the uninterpreted functions
# --------------------------------------------------------------------------------------------------
_UF_NAMES = ('SQ', 'SQRT', 'EXP', 'DIV')
_APPS_CACHE = {}
_LEM_CACHE = {}


def _apps_of(f):
    """uninterpreted SQ/SQRT/EXP applications inside one formula (cached per formula id)"""
    k = f.get_id()
    hit = _APPS_CACHE.get(k)
    if hit is not None:
        return hit[1]
    out = {n: {} for n in _UF_NAMES}
    seen = set()
    stack = [f]
    while stack:
        e = stack.pop()
        i = e.get_id()
        if i in seen:
            continue
        seen.add(i)
        if z3.is_app(e):
            if e.num_args() == 1 and e.decl().kind() == z3.Z3_OP_UNINTERPRETED:
                n = e.decl().name()
                if n in out:
                    out[n][e.arg(0).get_id()] = e.arg(0)
            elif e.num_args() == 2 and e.decl().kind() == z3.Z3_OP_UNINTERPRETED and e.decl().name() == 'DIV':
                out['DIV'][e.get_id()] = e
            stack.extend(e.children())
    if len(_APPS_CACHE) > 50000:
        _APPS_CACHE.clear()
    _APPS_CACHE[k] = (f, out)
    return out


def _collect_apps(fmls, decls=None):
    out = {n: {} for n in _UF_NAMES}
    for f in fmls:
        if isinstance(f, bool):
            continue
        a = _apps_of(f)
        for n in _UF_NAMES:
            if a[n]:
                out[n].update(a[n])
    return out


def _cached(key, refs, build):
    hit = _LEM_CACHE.get(key)
    if hit is not None:
        return hit[1]
    val = build()
    if len(_LEM_CACHE) > 300000:
        _LEM_CACHE.clear()
    _LEM_CACHE[key] = (refs, val)
    return val


_OPP = {}


def _opposite(s, t):
    k = (s.get_id(), t.get_id())
    r = _OPP.get(k)
    if r is None:
        z = z3.simplify(s + t)
        r = (z3.is_rational_value(z) or z3.is_int_value(z)) and frac_of(z) == 0
        if len(_OPP) > 200000:
            _OPP.clear()
        _OPP[k] = (r, s, t)
        return r
    return r[0]


def _is_uf(t, name):
    return z3.is_app(t) and t.decl().kind() == z3.Z3_OP_UNINTERPRETED and t.decl().name() == name


def uf_lemmas(fmls, pairwise=True, pairwise_limit=400):
    """True facts about SQ, SQRT, EXP for the argument terms occurring in `fmls` (quantifier free, cached)."""
    apps = _collect_apps(fmls)
    lem = []
    sq = list(apps['SQ'].values())
    sr = list(apps['SQRT'].values())
    ex = list(apps['EXP'].values())
    for t in sq:
        lem.extend(_cached(('sq1', t.get_id()), t, lambda: [SQ_F(t) >= 0, (SQ_F(t) == 0) == (t == 0)]))
    for i in range(len(sq)):
        for j in range(i + 1, len(sq)):
            s_, t = sq[i], sq[j]
            if _opposite(s_, t):
                lem.append(SQ_F(s_) == SQ_F(t))
    if pairwise:
        npairs = 0
        for i in range(len(sq)):
            for j in range(i + 1, len(sq)):
                if npairs >= pairwise_limit:
                    break
                s_, t = sq[i], sq[j]

                def mk(s_=s_, t=t):
                    a, b = zabs(s_), zabs(t)
                    return [z3.Implies(a <= b, SQ_F(s_) <= SQ_F(t)), z3.Implies(b <= a, SQ_F(t) <= SQ_F(s_))]
                lem.extend(_cached(('sq2', s_.get_id(), t.get_id()), (s_, t), mk))
                npairs += 1
    for t in sr:
        def mk1(t=t):
            l = [z3.Implies(t >= 0, SQRT_F(t) >= 0), z3.Implies(t >= 0, (SQRT_F(t) == 0) == (t == 0))]
            if _is_uf(t, 'SQ'):
                l.append(SQRT_F(t) == zabs(t.arg(0)))
            return l
        lem.extend(_cached(('sr1', t.get_id()), t, mk1))
    if pairwise:
        for i in range(len(sr)):
            for j in range(i + 1, len(sr)):
                s_, t = sr[i], sr[j]
                lem.extend(_cached(('sr2', s_.get_id(), t.get_id()), (s_, t),
                                   lambda s_=s_, t=t: [z3.Implies(z3.And(s_ >= 0, t >= 0), (s_ <= t) == (SQRT_F(s_) <= SQRT_F(t)))]))
        for t in sr:            # cross facts: sqrt(t) <= |u|  <=>  t <= u^2
            for u in sq:
                lem.extend(_cached(('x', t.get_id(), u.get_id()), (t, u), lambda t=t, u=u: [
                    z3.Implies(t >= 0, (t <= SQ_F(u)) == (SQRT_F(t) <= zabs(u))),
                    z3.Implies(t >= 0, (t >= SQ_F(u)) == (SQRT_F(t) >= zabs(u)))]))
    dv = list(apps['DIV'].values())
    for e in dv:
        def mkd(e=e):
            a, b = e.arg(0), e.arg(1)
            return [z3.Implies(b > 0, z3.And((e >= 0) == (a >= 0), (e == 0) == (a == 0), (e <= 1) == (a <= b), (e >= 1) == (a >= b))),
                    z3.Implies(b < 0, z3.And((e >= 0) == (a <= 0), (e == 0) == (a == 0)))]
        lem.extend(_cached(('dv1', e.get_id()), e, mkd))
    for i in range(len(dv)):
        for j in range(i + 1, len(dv)):
            e1, e2 = dv[i], dv[j]

            def mkd2(e1=e1, e2=e2):
                a1, b1, a2, b2 = e1.arg(0), e1.arg(1), e2.arg(0), e2.arg(1)
                l = []
                if b1.eq(b2):
                    l.append(z3.Implies(b1 > 0, z3.And((e1 <= e2) == (a1 <= a2), (e1 == e2) == (a1 == a2))))
                    if _opposite(a1, a2):
                        l.append(e1 == -e2)
                elif a1.eq(a2):
                    l.append(z3.Implies(z3.And(b1 > 0, b2 > 0, a1 >= 0), (b1 <= b2) == (e1 >= e2)) if False else
                             z3.Implies(z3.And(b1 > 0, b2 > 0, a1 > 0), (b1 <= b2) == (e1 >= e2)))
                    l.append(z3.Implies(z3.And(b1 > 0, b2 > 0, a1 > 0, b1 == b2), e1 == e2))
                return l
            lem.extend(_cached(('dv2', e1.get_id(), e2.get_id()), (e1, e2), mkd2))
    for t in ex:
        lem.extend(_cached(('ex1', t.get_id()), t, lambda t=t: [EXP_F(t) > 0, (t == 0) == (EXP_F(t) == 1), (t <= 0) == (EXP_F(t) <= 1)]))
    if pairwise:
        for i in range(len(ex)):
            for j in range(i + 1, len(ex)):
                s_, t = ex[i], ex[j]
                lem.extend(_cached(('ex2', s_.get_id(), t.get_id()), (s_, t), lambda s_=s_, t=t: [(s_ <= t) == (EXP_F(s_) <= EXP_F(t))]))
    return lem


def exact_defs(fmls):
    """Exact (non-linear) definitions, used only to refine a `sat` answer obtained under the abstraction."""
    apps = _collect_apps(fmls)
    d = []
    for t in apps['SQ'].values():
        d.append(SQ_F(t) == t * t)
    for t in apps['SQRT'].values():
        d.append(z3.Implies(t >= 0, z3.And(SQRT_F(t) >= 0, SQRT_F(t) * SQRT_F(t) == t)))
    for e in apps['DIV'].values():
        d.append(z3.Implies(e.arg(1) != 0, e * e.arg(1) == e.arg(0)))
    return d


# --------------------------------------------------------------------------------------------------
def fast_add(solver, fmls):
    """assert many formulas without the per-call overhead of Solver.add"""
    ctx = solver.ctx.ref()
    sv = solver.solver
    f = z3.Z3_solver_assert
    for a in fmls:
        if isinstance(a, bool):
            if not a:
                f(ctx, sv, z3.BoolVal(False).as_ast())
            continue
        f(ctx, sv, a.as_ast())


class Stats:
    FIELDS = ('queries', 'unsat', 'sat', 'unknown', 'paths', 'branch_queries', 'solver_s', 'nontrivial', 'twins_ok', 'twin_attempts')

    def __init__(self):
        for f in self.FIELDS:
            setattr(self, f, 0)
        self.solver_s = 0.0

    def as_dict(self):
        return {f: getattr(self, f) for f in self.FIELDS}

    def add(self, d):
        for f in self.FIELDS:
            setattr(self, f, getattr(self, f) + d.get(f, 0))


def decide(stats, facts, negated_claim, timeout_ms=None, lemmas=True, want_model=True):
    """Is `facts /\\ negated_claim` satisfiable?   returns ('unsat'|'sat'|'unknown', model|None)."""
    fm = [f for f in facts if not (isinstance(f, bool) and f)]
    neg = _b(negated_claim)
    neg = z3.simplify(neg)
    stats.queries += 1
    if z3.is_false(neg):
        stats.unsat += 1
        if not stats.twins_ok and stats.twin_attempts < 30:
            # the claim holds syntactically (e.g. both engines produced the same term): the path still witnesses reachability
            _reachability_twin(stats, fm, lemmas)
        return 'unsat', None
    stats.nontrivial += 1
    s = z3.Solver()
    s.set('timeout', timeout_ms or QUERY_TIMEOUT_MS)
    fast_add(s, fm)
    s.add(neg)
    if lemmas:
        fast_add(s, uf_lemmas(fm + [neg], pairwise=(lemmas != 'unary')))
    t0 = time.time()
    r = s.check()
    stats.solver_s += time.time() - t0
    if r == z3.unsat:
        stats.unsat += 1
        if not stats.twins_ok and stats.twin_attempts < 30:
            _reachability_twin(stats, fm, lemmas)
        return 'unsat', None
    if r == z3.sat:
        stats.sat += 1
        return 'sat', (s.model() if want_model else None)
    stats.unknown += 1
    return 'unknown', None


def _reachability_twin(stats, fm, lemmas):
    """vacuity guard, per task: the same assumptions and path condition with `assert false` in place of the claim must come
    back violated (satisfiable) for at least one proved claim.  (A single unsatisfiable twin is harmless: the explorer decides
    branch feasibility without the pairwise lemmas, so it may walk a path that the full lemma set refutes; a claim proved
    there is vacuous but sound.  A task in which *no* proved claim has a satisfiable twin is reported as a harness error.)"""
    stats.twin_attempts += 1
    s = z3.Solver()
    s.set('timeout', 20000)
    fast_add(s, fm)
    if lemmas:
        fast_add(s, uf_lemmas(fm, pairwise=(lemmas != 'unary')))
    r = s.check()
    if r == z3.sat:
        stats.twins_ok += 1


def refine_exact(facts, negated_claim, timeout_ms=60000):
    """Re-pose a sat query with SQ(t)=t*t, SQRT exact (QF_NRA)."""
    fm = list(facts) + [_b(negated_claim)]
    s = z3.Solver()
    s.set('timeout', timeout_ms)
    s.add(*fm)
    s.add(*exact_defs(fm))
    r = s.check()
    if r == z3.sat:
        return 'sat', s.model()
    return str(r), None
