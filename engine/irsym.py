"""IRSYM: symbolic interpreter for the LLVM IR clang emits for the repository's C sources.

Pipeline (re-run from the working tree whenever a source hash changes):
  clang-14 -S -emit-llvm -O0 -Xclang -disable-O0-optnone -DNDEBUG -ffp-contract=off  ->  opt-14 mem2reg,early-cse,simplifycfg
Values: iN = Python int | z3 Int;  double = Python float (incl. inf/nan) | z3 Real;  i1 = bool | z3 Bool;  pointers = Ptr.
Memory objects have an exact byte size; every access is bounds / lifetime / initialisation checked (monitors).
Symbolic branch conditions are decided by the PYSYM explorer (pysym.CUR).
"""
import hashlib
import math
import os
import re
import struct
import subprocess
import sys

import z3

from . import pysym, smt
from .smt import SQRT_F, EXP_F, INF

REPO = os.environ.get('VERIF_REPO', '/repo')
CDIR = os.path.join(REPO, 'src/DTAIDistanceC/DTAIDistanceC')
CACHE = os.path.join(os.path.dirname(os.path.dirname(os.path.abspath(__file__))), '.cache')
C_FILES = ['dd_dtw.c', 'dd_ed.c', 'dd_globals.c', 'dd_dtw_openmp.c']
CLANG_FLAGS = ['-S', '-emit-llvm', '-O0', '-Xclang', '-disable-O0-optnone', '-DNDEBUG', '-ffp-contract=off',
               '-fno-discard-value-names']
OPT_PASSES = 'mem2reg,early-cse,simplifycfg'


def c_sources_hash():
    h = hashlib.sha1()
    for f in sorted(os.listdir(CDIR)):
        if f.endswith(('.c', '.h')):
            with open(os.path.join(CDIR, f), 'rb') as fh:
                h.update(f.encode())
                h.update(fh.read())
    return h.hexdigest()[:16]


def prepare():
    """compile IR and the native replay library once, before worker processes start"""
    build_ir()
    build_native()
    _prune_cache()


def _prune_cache(keep_ir=4, keep_san=150):
    """scratch hygiene: the cache is keyed by source hashes, so entries of earlier source states only cost disk space"""
    import shutil
    for sub, keep in (('ir', keep_ir), ('san', keep_san), ('native', keep_ir)):
        d = os.path.join(CACHE, sub)
        try:
            ents = sorted((os.path.getmtime(os.path.join(d, e)), e) for e in os.listdir(d))
        except OSError:
            continue
        cur = c_sources_hash()
        for _, e in ents[:-keep] if len(ents) > keep else []:
            if e.startswith(cur):
                continue
            path = os.path.join(d, e)
            try:
                shutil.rmtree(path) if os.path.isdir(path) else os.unlink(path)
            except OSError:
                pass


def build_ir(olevel='-O0'):
    """compile the working tree's C files to IR (cached by source hash); returns list of .ll paths"""
    key = c_sources_hash() + ('' if olevel == '-O0' else olevel)
    d = os.path.join(CACHE, 'ir', key)
    outs = [os.path.join(d, f[:-2] + '.cse.ll') for f in C_FILES]
    if all(os.path.exists(o) for o in outs):
        return outs
    os.makedirs(d, exist_ok=True)
    ompdir = os.path.join(d, 'ompstub')
    os.makedirs(ompdir, exist_ok=True)
    open(os.path.join(ompdir, 'omp.h'), 'w').close()
    for f, o in zip(C_FILES, outs):
        raw = o[:-7] + '.%d.ll' % os.getpid()
        flags = [x if x != '-O0' else olevel for x in CLANG_FLAGS]
        cmd = ['clang-14'] + flags + ['-I' + CDIR]
        if 'openmp' in f:
            cmd += ['-fopenmp', '-isystem', ompdir]
        cmd += [os.path.join(CDIR, f), '-o', raw]
        subprocess.run(cmd, check=True, capture_output=True)
        tmp = o + '.%d.tmp' % os.getpid()
        subprocess.run(['opt-14', '-S', '-passes=' + OPT_PASSES, raw, '-o', tmp], check=True, capture_output=True)
        os.replace(tmp, o)
        os.unlink(raw)
    return outs


def build_native(sanitize=False):
    """shared library of the working tree's C engine for concrete replays through ctypes"""
    key = c_sources_hash() + ('-san' if sanitize else '')
    d = os.path.join(CACHE, 'native', key)
    so = os.path.join(d, 'libdd.so')
    if os.path.exists(so):
        return so
    os.makedirs(d, exist_ok=True)
    srcs = [os.path.join(CDIR, f) for f in ('dd_dtw.c', 'dd_ed.c', 'dd_globals.c')]
    tmp = so + '.%d.tmp' % os.getpid()
    cmd = ['clang-14', '-shared', '-fPIC', '-O1', '-DNDEBUG', '-ffp-contract=off', '-I' + CDIR] + srcs + ['-lm', '-o', tmp]
    if sanitize:
        cmd[1:1] = ['-fsanitize=address,undefined', '-fno-omit-frame-pointer', '-g']
    subprocess.run(cmd, check=True, capture_output=True)
    os.replace(tmp, so)
    return so


# --------------------------------------------------------------------------------------------------
# parsing
# --------------------------------------------------------------------------------------------------
class Violation(Exception):
    """a safety monitor fired (out of bounds, use after free, uninitialised read, UB ...)"""

    def __init__(self, kind, msg):
        super().__init__('%s: %s' % (kind, msg))
        self.kind = kind


class Unsupported(Exception):
    pass


class GlobalRef:
    __slots__ = ('name',)

    def __init__(self, name):
        self.name = name

    def __repr__(self):
        return '@' + self.name


class Func:
    def __init__(self, name, rettype, params):
        self.name, self.rettype, self.params = name, rettype, params
        self.blocks = {}
        self.order = []


def split_top(s, sep=','):
    out, depth, cur = [], 0, ''
    for ch in s:
        if ch in '([{<':
            depth += 1
        elif ch in ')]}>':
            depth -= 1
        if ch == sep and depth == 0:
            out.append(cur.strip())
            cur = ''
        else:
            cur += ch
    if cur.strip():
        out.append(cur.strip())
    return out


ATTRS = {'noundef', 'nocapture', 'readonly', 'writeonly', 'nonnull', 'noalias', 'signext', 'zeroext', 'readnone',
         'inbounds', 'nsw', 'nuw', 'exact', 'dso_local', 'internal', 'local_unnamed_addr', 'tail', 'notail',
         'immarg', 'returned', 'nofree', 'nonnull', 'musttail'}


def strip_attrs(tok):
    parts = tok.split()
    out = []
    for p in parts:
        if p in ATTRS or p.startswith('align') or p.startswith('dereferenceable') or p.startswith('sret('):
            continue
        out.append(p)
    # drop a bare alignment number following 'align'
    out2 = []
    skip = False
    for i, p in enumerate(parts):
        pass
    return out


def parse_typed(tok):
    """'double* noundef %s1' -> (type, value token)"""
    parts = tok.split()
    keep = []
    i = 0
    while i < len(parts):
        p = parts[i]
        if p == 'align':
            i += 2
            continue
        if p in ATTRS or p.startswith('dereferenceable') or p.startswith('sret(') or p.startswith('align'):
            i += 1
            continue
        keep.append(p)
        i += 1
    return ' '.join(keep[:-1]), keep[-1]


class Module:
    def __init__(self, paths):
        self.funcs, self.structs, self.globals = {}, {}, {}
        self.declared = set()
        for p in paths:
            with open(p) as f:
                self._parse(f.read())
        self._sizes = {}
        self._layouts = {}
        for f in self.funcs.values():
            self._decode_function(f)

    # ---- text -> raw structure
    def _parse(self, text):
        cur = None
        blk = None
        for line in text.split('\n'):
            if line.startswith(';') or not line.strip():
                continue
            if ' ;' in line and not line.startswith('@'):
                line = line.split(' ;')[0]
            m = re.match(r'(%[\w.]+) = type \{(.*)\}', line)
            if m:
                self.structs[m.group(1)] = [t.strip() for t in split_top(m.group(2))]
                continue
            m = re.match(r'(%[\w.]+) = type opaque', line)
            if m:
                self.structs[m.group(1)] = []
                continue
            if line.startswith('@'):
                m = re.match(r'@([\w.$]+) = (.*)', line)
                if m:
                    self.globals[m.group(1)] = m.group(2)
                continue
            if line.startswith('declare'):
                m = re.search(r'@([\w.$]+)\(', line)
                if m:
                    self.declared.add(m.group(1))
                continue
            if line.startswith('define'):
                m = re.match(r'define .*?@([\w.$]+)\((.*)\)[^)]*\{', line)
                name = m.group(1)
                head = line[:line.index('@' + name)].split()
                rett = head[-1]
                params = [parse_typed(p) for p in split_top(m.group(2))] if m.group(2).strip() else []
                cur = Func(name, rett, params)
                self.funcs[name] = cur
                blk = None
                continue
            if cur is None:
                continue
            if line.startswith('}'):
                cur = None
                continue
            m = re.match(r'([\w.$-]+):', line)
            if m and not line.startswith(' '):
                blk = m.group(1)
                cur.blocks[blk] = []
                cur.order.append(blk)
                continue
            if blk is None:
                blk = 'entry'
                cur.blocks[blk] = []
                cur.order.append(blk)
            line = re.sub(r', !\w+(\.\w+)* !\d+', '', line)
            line = re.sub(r', align \d+', '', line)
            cur.blocks[blk].append(line.strip())

    # ---- types
    def sizeof(self, t):
        t = t.strip()
        s = self._sizes.get(t)
        if s is not None:
            return s
        s = self._sizeof(t)
        self._sizes[t] = s
        return s

    def _sizeof(self, t):
        if t.endswith('*'):
            return 8
        if t in ('double', 'i64'):
            return 8
        if t in ('i32', 'float'):
            return 4
        if t in ('i8', 'i1'):
            return 1
        if t == 'i16':
            return 2
        m = re.match(r'\[(\d+) x (.*)\]$', t)
        if m:
            return int(m.group(1)) * self.sizeof(m.group(2))
        if t in self.structs:
            return self.layout(t)[1]
        raise Unsupported('sizeof ' + t)

    def alignof(self, t):
        t = t.strip()
        if t.endswith('*'):
            return 8
        m = re.match(r'\[(\d+) x (.*)\]$', t)
        if m:
            return self.alignof(m.group(2))
        if t in self.structs:
            return max([self.alignof(f) for f in self.structs[t]] or [1])
        return self.sizeof(t)

    def layout(self, t):
        if t in self._layouts:
            return self._layouts[t]
        off, offs, maxal = 0, [], 1
        for ft in self.structs[t]:
            sz, al = self.sizeof(ft), self.alignof(ft)
            maxal = max(maxal, al)
            off = (off + al - 1) // al * al
            offs.append(off)
            off += sz
        off = (off + maxal - 1) // maxal * maxal
        self._layouts[t] = (offs, off)
        return self._layouts[t]

    # ---- operands
    def operand(self, tok, ty):
        tok = tok.strip()
        if tok.startswith('%'):
            return tok
        if tok.startswith('@'):
            return GlobalRef(tok[1:])
        if tok == 'null':
            return NULL
        if tok in ('true', 'false'):
            return tok == 'true'
        if tok in ('undef', 'poison'):
            return UNDEF
        if tok == 'zeroinitializer':
            return 0
        if ty in ('double', 'float'):
            if tok.startswith('0x'):
                return struct.unpack('>d', bytes.fromhex(tok[2:].rjust(16, '0')))[0]
            return float(tok)
        if re.fullmatch(r'-?\d+', tok):
            return int(tok)
        if tok.startswith('getelementptr') or tok.startswith('bitcast'):
            m = re.search(r'@([\w.$]+)', tok)
            return GlobalRef(m.group(1)) if m else UNDEF
        raise Unsupported('operand %s : %s' % (tok, ty))

    # ---- instruction decoding
    def _decode_function(self, f):
        f.code = {}
        for b in f.order:
            phis, body = [], []
            for ins in f.blocks[b]:
                try:
                    d = self._decode(ins)
                except Unsupported:
                    d = ('unsupported', ins)
                except Exception as e:
                    d = ('unsupported', ins + '   [decode error: %r]' % (e,))
                if d[0] == 'phi':
                    phis.append(d)
                else:
                    body.append(d)
            f.code[b] = (phis, body)

    def _decode(self, ins):
        text = ins
        m = re.match(r'(%[\w.]+) = (.*)', ins)
        dst = None
        if m:
            dst, ins = m.group(1), m.group(2)
        op = ins.split()[0]
        O = self.operand
        if op == 'phi':
            m = re.match(r'phi ([^\[]+?) (\[.*)', ins)
            ty = m.group(1).strip()
            inc = {}
            for mm in re.finditer(r'\[ ([^,]+), %([\w.$-]+) \]', m.group(2)):
                inc[mm.group(2)] = O(mm.group(1), ty)
            return ('phi', dst, inc, ty)
        if op == 'br':
            m = re.match(r'br i1 (\S+), label %([\w.$-]+), label %([\w.$-]+)', ins)
            if m:
                return ('cbr', O(m.group(1), 'i1'), m.group(2), m.group(3))
            m = re.match(r'br label %([\w.$-]+)', ins)
            return ('br', m.group(1))
        if op == 'ret':
            if ins.strip() == 'ret void':
                return ('ret', None, None)
            m = re.match(r'ret (\S+(?: \S+)*?) (\S+)$', ins)
            return ('ret', O(m.group(2), m.group(1)), m.group(1))
        if op in ('add', 'sub', 'mul', 'shl', 'sdiv', 'udiv', 'and', 'or', 'xor', 'srem', 'urem', 'lshr', 'ashr'):
            m = re.match(r'\w+ ((?:nsw |nuw |exact )*)(\S+) ([^,]+), (.+)', ins)
            flags, ty = m.group(1), m.group(2)
            bits = int(ty[1:])
            return ('bin', dst, op, bits, 'nsw' in flags, O(m.group(3), ty), O(m.group(4), ty), text)
        if op in ('fadd', 'fsub', 'fmul', 'fdiv'):
            m = re.match(r'\w+ (?:fast |nnan |ninf |nsz |arcp |contract |afn |reassoc )*(\S+) ([^,]+), (.+)', ins)
            return ('fbin', dst, op, O(m.group(2), m.group(1)), O(m.group(3), m.group(1)))
        if op == 'fneg':
            m = re.match(r'fneg (\S+) (.+)', ins)
            return ('fneg', dst, O(m.group(2), m.group(1)))
        if op == 'icmp':
            m = re.match(r'icmp (\w+) (\S+) ([^,]+), (.+)', ins)
            ty = m.group(2)
            bits = 64 if ty.endswith('*') else int(ty[1:])
            return ('icmp', dst, m.group(1), bits, O(m.group(3), ty), O(m.group(4), ty))
        if op == 'fcmp':
            m = re.match(r'fcmp (\w+) (\S+) ([^,]+), (.+)', ins)
            return ('fcmp', dst, m.group(1), O(m.group(3), m.group(2)), O(m.group(4), m.group(2)))
        if op == 'select':
            m = re.match(r'select i1 ([^,]+), (\S+) ([^,]+), (\S+) (.+)', ins)
            return ('select', dst, O(m.group(1), 'i1'), O(m.group(3), m.group(2)), O(m.group(5), m.group(4)), m.group(2))
        if op == 'getelementptr':
            m = re.match(r'getelementptr (?:inbounds )?(.+?), (\S+\*) ([^,]+)((?:, \S+ [^,]+)*)$', ins)
            basety, ptr = m.group(1).strip(), O(m.group(3), m.group(2))
            idxs = [x.strip().split() for x in m.group(4).split(',') if x.strip()]
            const, var = 0, []
            ty = basety
            first = True
            for ity, itok in idxs:
                iv = O(itok, ity)
                if first:
                    scale = self.sizeof(ty)
                    first = False
                    if isinstance(iv, int):
                        const += iv * scale
                    else:
                        var.append((iv, scale))
                elif ty in self.structs:
                    offs, _ = self.layout(ty)
                    const += offs[iv]
                    ty = self.structs[ty][iv]
                else:
                    mm = re.match(r'\[(\d+) x (.*)\]$', ty)
                    ty = mm.group(2)
                    scale = self.sizeof(ty)
                    if isinstance(iv, int):
                        const += iv * scale
                    else:
                        var.append((iv, scale))
            return ('gep', dst, ptr, const, var)
        if op == 'load':
            m = re.match(r'load (?:volatile )?(.+?), (\S+) (\S+)$', ins)
            ty = m.group(1).strip()
            return ('load', dst, O(m.group(3), m.group(2)), ty, self.sizeof(ty))
        if op == 'store':
            m = re.match(r'store (?:volatile )?(\S+(?: \([^)]*\)\*+)?) (.+), (\S+) (\S+)$', ins)
            ty = m.group(1).strip()
            return ('store', O(m.group(2), ty), O(m.group(4), m.group(3)), ty, self.sizeof(ty))
        if op == 'alloca':
            m = re.match(r'alloca ([^,]+)(?:, (\S+) (\S+))?', ins)
            n = O(m.group(3), m.group(2)) if m.group(2) else 1
            return ('alloca', dst, self.sizeof(m.group(1).strip()), n)
        if op in ('bitcast', 'sext', 'zext', 'trunc', 'sitofp', 'uitofp', 'fptosi', 'fptoui', 'fptrunc', 'fpext',
                  'ptrtoint', 'inttoptr'):
            m = re.match(r'\w+ (.+?) (\S+) to (.+)$', ins)
            fty, tty = m.group(1).strip(), m.group(3).strip()
            return ('cast', dst, op, O(m.group(2), fty), fty, tty)
        if op in ('call', 'tail', 'musttail', 'notail'):
            m = re.search(r'call (?:[\w()]+ )*?(.+?) (?:\([^@]*\) )?@([\w.$]+)\((.*)\)', ins)
            if not m:
                m2 = re.search(r'call (?:[\w()]+ )*?(.+?) (%[\w.]+)\((.*)\)', ins)
                if not m2:
                    raise Unsupported(text)
                args = []
                for a in split_top(m2.group(3)):
                    ty, tok = parse_typed(a)
                    args.append(O(tok, ty))
                return ('icall', dst, m2.group(2), args)
            name, argstr = m.group(2), m.group(3)
            args = []
            for a in split_top(argstr):
                if a.startswith('metadata'):
                    args.append(None)
                    continue
                if 'getelementptr' in a or ' bitcast ' in a or a.startswith('i8* bitcast'):
                    mm = re.search(r'@([\w.$]+)', a)
                    args.append(GlobalRef(mm.group(1)) if mm else UNDEF)
                    continue
                ty, tok = parse_typed(a)
                args.append(O(tok, ty))
            return ('call', dst, name, args)
        if op == 'unreachable':
            return ('unreachable',)
        if op == 'switch':
            m = re.match(r'switch (\S+) ([^,]+), label %([\w.$-]+) \[(.*)\]', ins)
            cases = [(int(a), b) for a, b in re.findall(r'\S+ (-?\d+), label %([\w.$-]+)', m.group(4))]
            return ('switch', O(m.group(2), m.group(1)), m.group(3), cases)
        raise Unsupported(text)


class _Null:
    def __repr__(self):
        return 'null'


class _Undef:
    def __repr__(self):
        return 'undef'


NULL = _Null()
UNDEF = _Undef()


# --------------------------------------------------------------------------------------------------
# run-time values
# --------------------------------------------------------------------------------------------------
class Obj:
    __slots__ = ('name', 'size', 'cells', 'freed', 'kind', 'writable', 'zero', 'reads', 'writes', 'celltype')

    def __init__(self, name, size, kind='heap', writable=True):
        self.name, self.size, self.kind, self.writable = name, size, kind, writable
        self.cells = {}
        self.freed = False
        self.zero = False      # memset/calloc'ed: unwritten cells read as 0
        self.reads = set()
        self.writes = set()


class Ptr:
    __slots__ = ('obj', 'off')

    def __init__(self, obj, off):
        self.obj, self.off = obj, off

    def __repr__(self):
        return 'Ptr(%s,%s)' % (self.obj.name, self.off)


def is_sym(v):
    return isinstance(v, z3.ExprRef)


def is_mergeable(v):
    """finite double (concrete or symbolic): can be an arm of an if-then-else term"""
    if isinstance(v, z3.ExprRef):
        return True
    return isinstance(v, (int, float)) and not isinstance(v, bool) and not (isinstance(v, float) and (math.isinf(v) or v != v))


def tor(x):
    if isinstance(x, z3.ExprRef):
        if x.sort() == z3.IntSort():
            return z3.ToReal(x)
        return x
    return smt.rv(x)


def toi(x):
    if isinstance(x, z3.ExprRef):
        return x
    return z3.IntVal(int(x))


def tob(x):
    if isinstance(x, z3.ExprRef):
        return x
    return z3.BoolVal(bool(x))


def farith(op, a, b):
    fa, fb = isinstance(a, float), isinstance(b, float)
    if fa and fb:
        try:
            if op == 'fadd':
                return a + b
            if op == 'fsub':
                return a - b
            if op == 'fmul':
                return a * b
            if b == 0:
                if a == 0 or a != a:
                    return float('nan')
                return math.copysign(INF, a) * math.copysign(1.0, b)
            return a / b
        except OverflowError:
            return INF
    for x, y, first in ((a, b, True), (b, a, False)):
        if isinstance(x, float) and (math.isinf(x) or math.isnan(x)):
            if math.isnan(x):
                return x
            if op == 'fadd':
                return x
            if op == 'fsub':
                return x if first else -x
            if op == 'fmul':
                ex = pysym.CUR
                yt = tor(y)
                if ex.branch(yt > 0):
                    return x
                if ex.branch(yt < 0):
                    return -x
                return float('nan')
            if op == 'fdiv':
                if first:
                    ex = pysym.CUR
                    return x if ex.branch(tor(y) >= 0) else -x
                return 0.0
    if op == 'fadd':
        if fa and a == 0.0:
            return tor(b)
        if fb and b == 0.0:
            return tor(a)
    elif op == 'fsub' and fb and b == 0.0:
        return tor(a)
    elif op == 'fmul':
        if (fa and a == 1.0):
            return tor(b)
        if (fb and b == 1.0):
            return tor(a)
        if (fa and a == 0.0) or (fb and b == 0.0):
            return 0.0
    a, b = tor(a), tor(b)
    if op == 'fadd':
        return a + b
    if op == 'fsub':
        return a - b
    if op == 'fmul':
        if a.eq(b):
            return pysym.square_term(a)
        return a * b
    # division: by a symbolic value that may be zero -> fork
    ex = pysym.CUR
    if ex.branch(b == 0):
        if ex.branch(a == 0):
            return float('nan')
        return INF if ex.branch(a > 0) else -INF
    return a / b


_FC = {
    'olt': lambda a, b: a < b, 'ole': lambda a, b: a <= b, 'ogt': lambda a, b: a > b, 'oge': lambda a, b: a >= b,
    'oeq': lambda a, b: a == b, 'one': lambda a, b: a != b, 'une': lambda a, b: a != b, 'ueq': lambda a, b: a == b,
    'ult': lambda a, b: a < b, 'ule': lambda a, b: a <= b, 'ugt': lambda a, b: a > b, 'uge': lambda a, b: a >= b,
}


def fcmp(pred, a, b):
    fa, fb = isinstance(a, float), isinstance(b, float)
    if fa and fb:
        if a != a or b != b:
            return pred[0] == 'u'
        return _FC[pred](a, b)
    for x in (a, b):
        if isinstance(x, float) and x != x:
            return pred[0] == 'u'
    if fa and math.isinf(a):
        big = a > 0
        return {'olt': not big, 'ole': not big, 'ogt': big, 'oge': big, 'oeq': False, 'one': True, 'une': True,
                'ueq': False, 'ult': not big, 'ule': not big, 'ugt': big, 'uge': big}[pred]
    if fb and math.isinf(b):
        big = b > 0
        return {'olt': big, 'ole': big, 'ogt': not big, 'oge': not big, 'oeq': False, 'one': True, 'une': True,
                'ueq': False, 'ult': big, 'ule': big, 'ugt': not big, 'uge': not big}[pred]
    return _FC[pred](tor(a), tor(b))


def wrap_signed(v, bits):
    m = 1 << bits
    v &= m - 1
    return v - m if v >= (m >> 1) else v


# --------------------------------------------------------------------------------------------------
class Machine:
    MAX_STEPS = 3_000_000

    def __init__(self, module, stubs=None):
        self.mod = module
        self.nobj = 0
        self.steps = 0
        self.stubs = stubs or {}
        self.globals = {}
        self.objects = []
        self.allow_write = None     # optional predicate(obj) -> bool  (C20 store monitor)
        self.global_access = []     # accesses to mutable globals (C20 / C07 re-entrancy)
        self.merge = not os.environ.get('VERIF_NOMERGE')           # if-convert side-effect free diamonds on symbolic conditions
        self.merges = 0
        self.trace_calls = []

    # ---- objects
    def alloc(self, name, size, kind='heap', writable=True):
        self.nobj += 1
        o = Obj('%s#%d' % (name, self.nobj), size, kind, writable)
        self.objects.append(o)
        return o

    def new_doubles(self, name, vals, kind='input', writable=False, size=None):
        o = self.alloc(name, 8 * len(vals) if size is None else size, kind, writable)
        for i, v in enumerate(vals):
            o.cells[8 * i] = v
        return Ptr(o, 0)

    def new_ints(self, name, vals, kind='input', writable=False, width=8):
        o = self.alloc(name, width * len(vals), kind, writable)
        for i, v in enumerate(vals):
            o.cells[width * i] = v
        return Ptr(o, 0)

    def new_buffer(self, name, nbytes, kind='output', fill=None, width=8):
        o = self.alloc(name, nbytes, kind, True)
        if fill is not None:
            for k in range(0, nbytes, width):
                o.cells[k] = fill
        return Ptr(o, 0)

    def new_struct(self, name, sty, values, kind='input', writable=False):
        offs, size = self.mod.layout(sty)
        o = self.alloc(name, size, kind, writable)
        for off, v in zip(offs, values):
            o.cells[off] = v
        return Ptr(o, 0)

    def global_ptr(self, name):
        if name in self.mod.funcs or name in self.mod.declared:
            return ('fn', name)
        if name not in self.globals:
            init = self.mod.globals.get(name, '')
            const = ' constant ' in (' ' + init)
            o = self.alloc('@' + name, 4096, 'global-const' if const else 'global', not const)
            o.zero = True
            self.globals[name] = o
        return Ptr(self.globals[name], 0)

    # ---- memory access with monitors
    def _check_access(self, p, sz, what):
        if p is NULL or p is UNDEF or not isinstance(p, Ptr):
            raise Violation('null-deref', '%s through %r' % (what, p))
        o = p.obj
        if o.freed:
            raise Violation('use-after-free', '%s of %s' % (what, o.name))
        off = p.off
        if isinstance(off, int):
            if off < 0 or off + sz > o.size:
                raise Violation('out-of-bounds', '%s at byte offset %d (size %d) of %s[%d bytes]' % (what, off, sz, o.name, o.size))
            return None
        ex = pysym.CUR
        bad = z3.Or(off < 0, off + sz > o.size)
        if ex._check(bad):
            ex.assume(bad)      # steer the path into the violating region so that the witness shows it
            raise Violation('out-of-bounds', '%s at symbolic offset of %s[%d bytes]' % (what, o.name, o.size))
        return off

    def load(self, p, ty, sz):
        symoff = self._check_access(p, sz, 'load')
        o = p.obj
        if o.kind == 'global':
            self.global_access.append(('load', o.name))
        if symoff is None:
            v = o.cells.get(p.off, self)
            if v is self:
                if o.zero:
                    return 0.0 if ty == 'double' else (NULL if ty.endswith('*') else 0)
                raise Violation('uninitialised-read', 'load of %s at offset %d of %s' % (ty, p.off, o.name))
            o.reads.add(p.off)
            return v
        offs = sorted(k for k in o.cells if k + sz <= o.size)
        if not offs:
            raise Violation('uninitialised-read', 'symbolic load from empty %s' % o.name)
        ex = pysym.CUR
        # every feasible offset must be an initialised cell
        if ex._check(z3.And(*[symoff != k for k in offs])):
            if not o.zero:
                raise Violation('uninitialised-read', 'symbolic load from %s may hit an unwritten cell' % o.name)
        vals = [o.cells[k] for k in offs]
        if all(not is_sym(v) and not isinstance(v, Ptr) for v in vals) and len(set(map(repr, vals))) == 1:
            return vals[0]
        if any(isinstance(v, Ptr) or v is NULL for v in vals) or any(isinstance(v, float) and (math.isinf(v) or v != v) for v in vals):
            for k in offs:          # pointers / infinities cannot be merged: fork on the offset
                if ex.branch(symoff == k):
                    o.reads.add(k)
                    return o.cells[k]
            raise Violation('out-of-bounds', 'symbolic load from %s' % o.name)
        conv = tor if ty == 'double' else toi
        res = conv(vals[-1])
        for k, v in zip(reversed(offs[:-1]), reversed(vals[:-1])):
            res = z3.If(symoff == k, conv(v), res)
        o.reads.update(offs)
        return res

    def store(self, p, v, ty, sz):
        symoff = self._check_access(p, sz, 'store')
        o = p.obj
        if not o.writable:
            raise Violation('write-to-input', 'store into read-only object %s' % o.name)
        if self.allow_write is not None and not self.allow_write(o):
            raise Violation('foreign-write', 'store into %s which the routine neither allocated nor was given as output' % o.name)
        if o.kind == 'global':
            self.global_access.append(('store', o.name))
        if symoff is None:
            o.cells[p.off] = v
            o.writes.add(p.off)
            return
        ex = pysym.CUR
        cands = [k for k in range(0, o.size - sz + 1, sz)]
        for k in cands:
            if ex.branch(symoff == k):
                o.cells[k] = v
                o.writes.add(k)
                return
        raise Violation('out-of-bounds', 'symbolic store into %s' % o.name)

    # ---- helpers
    def truth(self, c):
        if isinstance(c, (bool, int)):
            return bool(c)
        if c is UNDEF:
            raise Violation('undef-branch', 'branch on undef')
        return pysym.CUR.branch(c)

    def call_external(self, name, args):
        st = self.stubs.get(name)
        if st is not None:
            return st(self, *args)
        if name == 'sqrt':
            x = args[0]
            if isinstance(x, float):
                return math.sqrt(x) if x >= 0 else float('nan')
            return pysym.sqrt_term(tor(x))
        if name == 'exp':
            x = args[0]
            if isinstance(x, float):
                try:
                    return math.exp(x)
                except OverflowError:
                    return INF
            return pysym.exp_term(tor(x))
        if name == 'pow':
            x, y = args
            if y == 2.0 or y == 2:
                return farith('fmul', x, x)
            if isinstance(x, float) and isinstance(y, float):
                return math.pow(x, y)
            raise Unsupported('pow with exponent %r' % (y,))
        if name == 'llvm.fabs.f64' or name == 'fabs':
            x = args[0]
            if isinstance(x, float):
                return abs(x)
            return smt.zabs(tor(x))
        if name in ('llvm.smax.i64', 'llvm.smin.i64', 'llvm.smax.i32', 'llvm.smin.i32'):
            a, b = args
            if is_sym(a) or is_sym(b):
                a, b = toi(a), toi(b)
                return z3.If(a > b, a, b) if 'smax' in name else z3.If(a < b, a, b)
            return max(a, b) if 'smax' in name else min(a, b)
        if name in ('malloc', 'calloc'):
            n = args[0] if name == 'malloc' else args[0] * args[1]
            if is_sym(n):
                raise Unsupported('symbolic allocation size')
            if n < 0:
                raise Violation('bad-alloc', 'malloc of negative size %d' % n)
            o = self.alloc('heap', n, 'heap', True)
            o.zero = name == 'calloc'
            return Ptr(o, 0)
        if name == 'free':
            p = args[0]
            if p is NULL:
                return None
            if not isinstance(p, Ptr) or p.obj.kind != 'heap' or p.off != 0:
                raise Violation('bad-free', 'free of %r' % (p,))
            if p.obj.freed:
                raise Violation('double-free', p.obj.name)
            p.obj.freed = True
            return None
        if name in ('printf', 'puts', 'putchar', 'snprintf', 'fprintf', 'fflush'):
            return 0
        if name.startswith('llvm.lifetime') or name.startswith('llvm.dbg') or name.startswith('llvm.experimental.noalias') \
                or name.startswith('llvm.stacksave') or name.startswith('llvm.stackrestore'):
            return None
        if name.startswith('llvm.memset'):
            p, b, n = args[0], args[1], args[2]
            if is_sym(n):
                raise Unsupported('symbolic memset size')
            if n == 0:
                return None
            self._check_access(Ptr(p.obj, p.off), 1, 'memset')
            self._check_access(Ptr(p.obj, p.off + n - 1), 1, 'memset')
            if b != 0:
                raise Unsupported('memset with non-zero byte')
            if not p.obj.writable:
                raise Violation('write-to-input', 'memset of %s' % p.obj.name)
            for k in list(p.obj.cells):
                if p.off <= k < p.off + n:
                    del p.obj.cells[k]
            if p.off == 0 and n == p.obj.size:
                p.obj.zero = True
            else:
                for k in range(p.off, p.off + n, 8):
                    p.obj.cells[k] = 0.0
            return None
        if name in ('rand', 'srand', 'time'):
            raise Unsupported('randomised routine (outside the claim): ' + name)
        if name == '__assert_fail' or name == 'abort' or name == 'exit':
            raise pysym.Inconclusive('assert/abort reached')
        raise Unsupported('external function ' + name)

    def call(self, name, args):
        st = self.stubs.get(name)
        if st is not None:
            return st(self, *args)
        if name in self.mod.funcs:
            return self.run(name, args)
        return self.call_external(name, args)

    # ---- interpreter
    def run(self, fname, args):
        f = self.mod.funcs[fname]
        env = {}
        if len(args) != len(f.params):
            raise Unsupported('arity mismatch calling ' + fname)
        for (ty, nm), a in zip(f.params, args):
            env[nm] = a
        frame_objs = []
        cur, prev = f.order[0], None
        code = f.code
        V = self._val
        merged = False
        while True:
            phis, body = code[cur]
            if phis and not merged:
                vals = [(d[1], V(d[2][prev], env)) for d in phis]
                for k, v in vals:
                    env[k] = v
            merged = False
            nxt = None
            for d in body:
                self.steps += 1
                op = d[0]
                if op == 'load':
                    env[d[1]] = self.load(V(d[2], env), d[3], d[4])
                elif op == 'gep':
                    p = V(d[2], env)
                    if not isinstance(p, Ptr):
                        if p is NULL:
                            raise Violation('null-deref', 'pointer arithmetic on null')
                        raise Violation('bad-pointer', 'gep on %r' % (p,))
                    off = p.off + d[3]
                    for io, scale in d[4]:
                        off = off + V(io, env) * scale
                    env[d[1]] = Ptr(p.obj, off)
                elif op == 'bin':
                    env[d[1]] = self._bin(d, V(d[5], env), V(d[6], env))
                elif op == 'icmp':
                    env[d[1]] = self._icmp(d[2], d[3], V(d[4], env), V(d[5], env))
                elif op == 'cbr':
                    cv = V(d[1], env)
                    if isinstance(cv, z3.ExprRef) and self.merge:
                        j = self._try_merge(f, cur, d[2], d[3], cv, env)
                        if j is not None:
                            nxt = j
                            merged = True
                            break
                    nxt = d[2] if self.truth(cv) else d[3]
                    break
                elif op == 'br':
                    nxt = d[1]
                    break
                elif op == 'store':
                    self.store(V(d[2], env), V(d[1], env), d[3], d[4])
                elif op == 'select':
                    env[d[1]] = self._select(V(d[2], env), V(d[3], env), V(d[4], env), d[5])
                elif op == 'fcmp':
                    env[d[1]] = fcmp(d[2], V(d[3], env), V(d[4], env))
                elif op == 'fbin':
                    env[d[1]] = farith(d[2], V(d[3], env), V(d[4], env))
                elif op == 'cast':
                    env[d[1]] = self._cast(d[2], V(d[3], env), d[4], d[5])
                elif op == 'call':
                    r = self.call(d[2], [V(a, env) if a is not None else None for a in d[3]])
                    if d[1]:
                        env[d[1]] = r
                elif op == 'icall':
                    fn = V(d[2], env)
                    if not (isinstance(fn, tuple) and fn[0] == 'fn'):
                        raise Violation('bad-call', 'indirect call through %r' % (fn,))
                    r = self.call(fn[1], [V(a, env) for a in d[3]])
                    if d[1]:
                        env[d[1]] = r
                elif op == 'alloca':
                    n = V(d[3], env)
                    if is_sym(n):
                        raise Unsupported('symbolic alloca')
                    o = self.alloc('stack:' + fname + ':' + d[1], d[2] * n, 'stack', True)
                    frame_objs.append(o)
                    env[d[1]] = Ptr(o, 0)
                elif op == 'fneg':
                    x = V(d[2], env)
                    env[d[1]] = -x
                elif op == 'ret':
                    for o in frame_objs:
                        o.freed = True
                    return V(d[1], env) if d[1] is not None else None
                elif op == 'switch':
                    v = V(d[1], env)
                    nxt = d[2]
                    for cv, lbl in d[3]:
                        if self.truth(v == cv if is_sym(v) else v == cv):
                            nxt = lbl
                            break
                    break
                elif op == 'unreachable':
                    raise Violation('unreachable', 'unreachable executed in ' + fname)
                elif op == 'unsupported':
                    raise Unsupported(d[1])
                else:
                    raise Unsupported(str(d))
                if self.steps > self.MAX_STEPS:
                    raise pysym.Inconclusive('step budget exhausted')
            prev, cur = cur, nxt

    _SIMPLE = {'load', 'gep', 'bin', 'icmp', 'fcmp', 'fbin', 'select', 'cast', 'fneg', 'call', 'store'}
    _PURE = {'sqrt', 'exp', 'llvm.fabs.f64', 'fabs', 'pow'}

    def _ipdom(self, f):
        """immediate post-dominators of the blocks of f (computed once per function)"""
        pd = getattr(f, '_ipdom', None)
        if pd is not None:
            return pd
        succ = {}
        for b in f.order:
            body = f.code[b][1]
            t = body[-1] if body else ('unreachable',)
            if t[0] == 'br':
                succ[b] = [t[1]]
            elif t[0] == 'cbr':
                succ[b] = [t[2], t[3]]
            elif t[0] == 'switch':
                succ[b] = [t[2]] + [l for _, l in t[3]]
            else:
                succ[b] = []
        EXIT = '<exit>'
        nodes = list(f.order) + [EXIT]
        full = set(nodes)
        pdom = {b: set(full) for b in f.order}
        pdom[EXIT] = {EXIT}
        for b in f.order:
            if not succ[b]:
                succ[b] = [EXIT]
        changed = True
        while changed:
            changed = False
            for b in reversed(f.order):
                new = None
                for s_ in succ[b]:
                    new = set(pdom[s_]) if new is None else (new & pdom[s_])
                new = (new or set()) | {b}
                if new != pdom[b]:
                    pdom[b] = new
                    changed = True
        ip = {}
        for b in f.order:
            cands = pdom[b] - {b}
            best = None
            for c in cands:
                # the immediate post-dominator is the candidate post-dominated by no other candidate ... i.e. closest
                if all((c == d) or (d in pdom[c]) for d in cands):
                    best = c
                    break
            ip[b] = None if best in (None, EXIT) else best
        f._ipdom = ip
        return ip

    def _spec_region(self, f, start, pred, join, env, budget, depth):
        """speculatively execute the side-effect free region from block `start` (entered from `pred`) up to `join`.
        returns (overlay env, predecessor label at the join) or None"""
        ov = env
        cur, prev = start, pred
        V = self._val
        visited = set()
        pos = getattr(f, '_pos', None)
        if pos is None:
            pos = f._pos = {b: i for i, b in enumerate(f.order)}
        if pos.get(join, -1) <= pos.get(pred, 1 << 30):
            return None         # the join must lie ahead of the branch (no loops inside a merged region)
        while cur != join:
            if cur in visited or cur is None:
                return None
            if prev is not None and pos[cur] <= pos[prev]:
                return None     # back edge: values of loop-header phis would escape the region
            visited.add(cur)
            phis, body = f.code[cur]
            if phis:
                if ov is env:
                    ov = dict(env)
                vals = []
                for d in phis:
                    if prev not in d[2]:
                        return None
                    vals.append((d[1], V(d[2][prev], ov)))
                for k, v in vals:
                    ov[k] = v
            for d in body:
                budget[0] -= 1
                if budget[0] < 0:
                    return None
                op = d[0]
                if op == 'br':
                    prev, cur = cur, d[1]
                    break
                if op == 'cbr':
                    c = V(d[1], ov)
                    if isinstance(c, (bool, int)):
                        prev, cur = cur, (d[2] if c else d[3])
                        break
                    if not isinstance(c, z3.ExprRef) or depth <= 0:
                        return None
                    if ov is env:
                        ov = dict(env)
                    saved = ov.get('__stores__')
                    if saved:
                        return None
                    ov['__stores__'] = None
                    j = self._merge_at(f, cur, d[2], d[3], c, ov, budget, depth - 1)
                    ov['__stores__'] = saved
                    if j is None:
                        return None
                    # phis of j were assigned by _merge_at: continue *after* them
                    prev, cur = None, j
                    if cur == join:
                        return None      # nested join coincides with the outer one: let the caller fork
                    # execute body of j without re-evaluating phis
                    res = self._spec_body_after_merge(f, j, ov, budget, depth)
                    if res is None:
                        return None
                    prev, cur = res
                    break
                if op not in self._SIMPLE:
                    return None
                if ov is env:
                    ov = dict(env)
                if not self._spec_instr(d, ov):
                    return None
            else:
                return None
        if ov is env:
            ov = dict(env)
        return ov, prev

    def _spec_body_after_merge(self, f, blk, ov, budget, depth):
        """run the non-phi part of block blk speculatively; returns (prev, next) or None"""
        V = self._val
        for d in f.code[blk][1]:
            budget[0] -= 1
            if budget[0] < 0:
                return None
            op = d[0]
            if op == 'br':
                return blk, d[1]
            if op == 'cbr':
                c = V(d[1], ov)
                if isinstance(c, (bool, int)):
                    return blk, (d[2] if c else d[3])
                if not isinstance(c, z3.ExprRef) or depth <= 0:
                    return None
                saved = ov.get('__stores__')
                if saved:
                    return None
                ov['__stores__'] = None
                j = self._merge_at(f, blk, d[2], d[3], c, ov, budget, depth - 1)
                ov['__stores__'] = saved
                if j is None:
                    return None
                return self._spec_body_after_merge(f, j, ov, budget, depth)
            if op not in self._SIMPLE:
                return None
            if not self._spec_instr(d, ov):
                return None
        return None

    def _spec_instr(self, d, ov):
        V = self._val
        op = d[0]
        try:
            if op == 'load':
                p = V(d[2], ov)
                if not isinstance(p, Ptr) or not isinstance(p.off, int):
                    return False
                for (o2, off2, _v) in (ov.get('__stores__') or ()):
                    if o2 is p.obj and off2 == p.off:
                        return False
                ov[d[1]] = self.load(p, d[3], d[4])
            elif op == 'gep':
                p = V(d[2], ov)
                if not isinstance(p, Ptr):
                    return False
                off = p.off + d[3]
                for io, scale in d[4]:
                    off = off + V(io, ov) * scale
                ov[d[1]] = Ptr(p.obj, off)
            elif op == 'bin':
                ov[d[1]] = self._bin(d, V(d[5], ov), V(d[6], ov))
            elif op == 'icmp':
                ov[d[1]] = self._icmp(d[2], d[3], V(d[4], ov), V(d[5], ov))
            elif op == 'fcmp':
                ov[d[1]] = fcmp(d[2], V(d[3], ov), V(d[4], ov))
            elif op == 'fbin':
                a, b = V(d[3], ov), V(d[4], ov)
                if d[2] == 'fdiv':
                    return False
                for x in (a, b):
                    if isinstance(x, float) and (math.isinf(x) or x != x) and d[2] == 'fmul':
                        return False
                ov[d[1]] = farith(d[2], a, b)
            elif op == 'select':
                c = V(d[2], ov)
                a, b = V(d[3], ov), V(d[4], ov)
                if isinstance(c, z3.ExprRef) and not (d[5] == 'double' and is_mergeable(a) and is_mergeable(b)):
                    return False
                ov[d[1]] = self._select(c, a, b, d[5])
            elif op == 'cast':
                ov[d[1]] = self._cast(d[2], V(d[3], ov), d[4], d[5])
            elif op == 'fneg':
                ov[d[1]] = -V(d[2], ov)
            elif op == 'call':
                if d[2] not in self._PURE or d[2] in self.stubs:
                    return False
                args = [V(a, ov) for a in d[3]]
                if any(isinstance(a, float) and (math.isinf(a) or a != a) for a in args):
                    return False
                r = self.call_external(d[2], args)
                if d[1]:
                    ov[d[1]] = r
            elif op == 'store':
                st = ov.get('__stores__')
                if st is None:
                    return False        # stores are only speculated in the outermost arms
                p = V(d[2], ov)
                v = V(d[1], ov)
                if not isinstance(p, Ptr) or not isinstance(p.off, int) or d[3] != 'double' or not is_mergeable(v):
                    return False
                o = p.obj
                self._check_access(p, d[4], 'store')
                if not o.writable or (self.allow_write is not None and not self.allow_write(o)) or o.kind == 'global':
                    return False
                old = o.cells.get(p.off, None)
                for (o2, off2, _v) in st:
                    if o2 is o and off2 == p.off:
                        return False    # two stores to one cell in one arm
                if old is None or not is_mergeable(old):
                    return False
                ov['__stores__'] = st + [(o, p.off, v)]
            else:
                return False
        except (Violation, Unsupported, pysym.Inconclusive):
            return False
        return True

    def _merge_at(self, f, cur, tb, fb, cond, env, budget, depth):
        """if-convert the region between the symbolic branch at the end of `cur` and its immediate post-dominator.
        On success the phis of the join are assigned in env and the join label is returned."""
        join = self._ipdom(f).get(cur)
        if join is None:
            return None
        pos = getattr(f, '_pos', None)
        if pos is None:
            pos = f._pos = {b: i for i, b in enumerate(f.order)}
        if pos[join] <= pos[cur]:
            return None
        arms = []
        top_stores = env.get('__stores__') is not None
        for tgt in (tb, fb):
            if tgt == join:
                arms.append((env, cur))
            else:
                e2 = env
                if top_stores:
                    e2 = dict(env)
                    e2['__stores__'] = []
                r = self._spec_region(f, tgt, cur, join, e2, budget, depth)
                if r is None:
                    return None
                arms.append(r)
        phis = f.code[join][0]
        vals = []
        for d in phis:
            inc = d[2]
            if arms[0][1] not in inc or arms[1][1] not in inc:
                return None
            a = self._val(inc[arms[0][1]], arms[0][0])
            b = self._val(inc[arms[1][1]], arms[1][0])
            ty = d[3]
            if ty == 'double':
                if not (is_mergeable(a) and is_mergeable(b)):
                    if isinstance(a, float) and isinstance(b, float) and (a == b or (a != a and b != b)):
                        vals.append((d[1], a))
                        continue
                    return None
                vals.append((d[1], z3.If(cond, tor(a), tor(b))))
            elif ty.startswith('i') and not ty.endswith('*'):
                if isinstance(a, Ptr) or isinstance(b, Ptr) or a is UNDEF or b is UNDEF or a is NULL or b is NULL:
                    return None
                if not is_sym(a) and not is_sym(b) and a == b:
                    vals.append((d[1], a))
                elif ty == 'i1':
                    vals.append((d[1], z3.If(cond, tob(a), tob(b))))
                else:
                    return None      # integer results steer indexing: keep them concrete by forking
            else:
                return None
        if top_stores:
            st_t = arms[0][0].get('__stores__') or []
            st_f = arms[1][0].get('__stores__') or []
            cells = {}
            for which, lst in ((0, st_t), (1, st_f)):
                for (o, off, v) in lst:
                    cells.setdefault((id(o), off), [o, off, None, None])[2 + which] = v
            writes = []
            for o, off, vt, vf in cells.values():
                old = o.cells.get(off)
                vt = old if vt is None else vt
                vf = old if vf is None else vf
                if not (is_mergeable(vt) and is_mergeable(vf)):
                    return None
                writes.append((o, off, z3.If(cond, tor(vt), tor(vf))))
            env['__pending_writes__'] = writes
        for k, v in vals:
            env[k] = v
        self.merges += 1
        return join

    def _try_merge(self, f, cur, tb, fb, cond, env):
        ov = dict(env)
        ov['__stores__'] = []
        j = self._merge_at(f, cur, tb, fb, cond, ov, [80], 3)
        if j is None:
            return None
        for (o, off, v) in ov.get('__pending_writes__', ()):
            o.cells[off] = v
            o.writes.add(off)
        for d in f.code[j][0]:
            env[d[1]] = ov[d[1]]
        return j

    def _val(self, o, env):
        if type(o) is str:
            try:
                return env[o]
            except KeyError:
                raise Violation('undef-use', 'use of undefined register ' + o)
        if isinstance(o, GlobalRef):
            return self.global_ptr(o.name)
        return o

    def _bin(self, d, a, b):
        _, dst, op, bits, nsw, _, _, text = d
        if isinstance(a, bool):
            a = int(a)
        if isinstance(b, bool):
            b = int(b)
        if a is UNDEF or b is UNDEF:
            return UNDEF
        if isinstance(a, Ptr) or isinstance(b, Ptr):
            raise Unsupported('integer arithmetic on pointers: ' + text)
        sa, sb = is_sym(a), is_sym(b)
        if bits == 1:
            if sa or sb or isinstance(a, z3.BoolRef):
                a, b = tob(a), tob(b)
                return {'and': z3.And, 'or': z3.Or, 'xor': z3.Xor}[op](a, b)
            r = {'and': a & b, 'or': a | b, 'xor': a ^ b, 'add': a ^ b, 'sub': a ^ b, 'mul': a & b}[op]
            return bool(r & 1)
        if sa or sb:
            if isinstance(a, z3.BoolRef):
                a = z3.If(a, 1, 0)
            if isinstance(b, z3.BoolRef):
                b = z3.If(b, 1, 0)
            if op == 'add':
                return a + b
            if op == 'sub':
                return a - b
            if op == 'mul':
                return a * b
            if op == 'sdiv':
                ai, bi = toi(a), toi(b)
                ex = pysym.CUR
                if ex._check(bi == 0):
                    ex.assume(bi == 0)
                    raise Violation('div-by-zero', text)
                q = z3.If(bi > 0, z3.If(ai >= 0, ai / bi, -((-ai) / bi)), z3.If(ai >= 0, -(ai / (-bi)), (-ai) / (-bi)))
                return q
            if op == 'shl' and not sb:
                return a * (1 << b)
            raise Unsupported('symbolic ' + text)
        if op == 'add':
            r = a + b
        elif op == 'sub':
            r = a - b
        elif op == 'mul':
            r = a * b
        elif op in ('sdiv', 'srem'):
            if b == 0:
                raise Violation('div-by-zero', text)
            q = abs(a) // abs(b)
            if (a < 0) != (b < 0):
                q = -q
            if op == 'sdiv':
                r = q
                if r >= (1 << (bits - 1)):
                    raise Violation('signed-overflow', text)
            else:
                r = a - q * b
        elif op in ('udiv', 'urem'):
            ua, ub = a & ((1 << bits) - 1), b & ((1 << bits) - 1)
            if ub == 0:
                raise Violation('div-by-zero', text)
            r = ua // ub if op == 'udiv' else ua % ub
        elif op == 'and':
            r = a & b
        elif op == 'or':
            r = a | b
        elif op == 'xor':
            r = a ^ b
        elif op == 'shl':
            if b < 0 or b >= bits:
                raise Violation('bad-shift', text)
            r = a << b
        elif op == 'lshr':
            if b < 0 or b >= bits:
                raise Violation('bad-shift', text)
            r = (a & ((1 << bits) - 1)) >> b
        elif op == 'ashr':
            if b < 0 or b >= bits:
                raise Violation('bad-shift', text)
            r = a >> b
        else:
            raise Unsupported(text)
        if op in ('add', 'sub', 'mul', 'shl'):
            lim = 1 << (bits - 1)
            if not (-lim <= r < lim):
                if nsw:
                    raise Violation('signed-overflow', '%s with operands %d, %d' % (text, a, b))
                r = wrap_signed(r, bits)
        return r

    def _icmp(self, pred, bits, a, b):
        pa, pb = isinstance(a, Ptr), isinstance(b, Ptr)
        if pa or pb or a is NULL or b is NULL:
            if pa and pb:
                if a.obj is b.obj:
                    a, b = a.off, b.off
                else:
                    if pred == 'eq':
                        return False
                    if pred == 'ne':
                        return True
                    raise Violation('pointer-compare', 'relational comparison of pointers into different objects')
            else:
                a = 1 if pa else 0
                b = 1 if pb else 0
        if isinstance(a, tuple) or isinstance(b, tuple):
            return (a == b) if pred == 'eq' else (a != b)
        if a is UNDEF or b is UNDEF:
            return UNDEF
        if isinstance(a, bool):
            a = int(a)
        if isinstance(b, bool):
            b = int(b)
        sym = is_sym(a) or is_sym(b)
        if sym:
            if isinstance(a, z3.BoolRef) or isinstance(b, z3.BoolRef):
                a, b = tob(a) if not isinstance(a, int) else z3.BoolVal(bool(a)), tob(b) if not isinstance(b, int) else z3.BoolVal(bool(b))
                return (a == b) if pred == 'eq' else z3.Xor(a, b)
            if pred[0] == 'u':
                raise Unsupported('unsigned comparison of symbolic integers')
        elif pred[0] == 'u':
            m = (1 << bits) - 1
            a, b = a & m, b & m
        if pred == 'eq':
            return a == b
        if pred == 'ne':
            return a != b
        if pred in ('slt', 'ult'):
            return a < b
        if pred in ('sle', 'ule'):
            return a <= b
        if pred in ('sgt', 'ugt'):
            return a > b
        return a >= b

    def _select(self, c, a, b, ty):
        if isinstance(c, (bool, int)):
            return a if c else b
        if c is UNDEF:
            raise Violation('undef-branch', 'select on undef')
        if ty == 'double':
            if isinstance(a, float) and isinstance(b, float) and (a == b or (a != a and b != b)):
                return a
            if (isinstance(a, float) and (math.isinf(a) or a != a)) or (isinstance(b, float) and (math.isinf(b) or b != b)):
                return a if self.truth(c) else b
            return z3.If(c, tor(a), tor(b))
        if ty == 'i1':
            return z3.If(c, tob(a), tob(b))
        if isinstance(a, Ptr) or isinstance(b, Ptr) or a is NULL or b is NULL or isinstance(a, tuple):
            return a if self.truth(c) else b
        if not is_sym(a) and not is_sym(b) and a == b:
            return a
        if a is UNDEF or b is UNDEF:
            return a if self.truth(c) else b
        return z3.If(c, toi(a), toi(b))

    def _cast(self, op, v, fty, tty):
        if op == 'bitcast' or op == 'inttoptr' or op == 'ptrtoint':
            return v
        if v is UNDEF:
            return v
        if op in ('zext', 'sext'):
            if isinstance(v, bool):
                return (1 if v else 0) if op == 'zext' else (-1 if v else 0)
            if isinstance(v, z3.BoolRef):
                return z3.If(v, 1, 0) if op == 'zext' else z3.If(v, -1, 0)
            if op == 'zext' and not is_sym(v) and v < 0:
                return v & ((1 << int(fty[1:])) - 1)
            return v
        if op == 'trunc':
            bits = int(tty[1:])
            if is_sym(v):
                if bits == 1:
                    return v % 2 == 1
                return v      # symbolic ints are kept small by the harness assumptions
            if bits == 1:
                return bool(v & 1)
            return wrap_signed(v, bits)
        if op in ('sitofp', 'uitofp'):
            if isinstance(v, bool):
                return 1.0 if v else 0.0
            if is_sym(v):
                return z3.ToReal(v) if v.sort() == z3.IntSort() else v
            return float(v)
        if op in ('fptosi', 'fptoui'):
            bits = int(tty[1:])
            if isinstance(v, float):
                if v != v or math.isinf(v) or not (-(2.0 ** (bits - 1)) <= v < 2.0 ** (bits - 1)):
                    raise Violation('fptosi-range', 'conversion of %r to %s' % (v, tty))
                return int(v)
            raise Unsupported('fptosi of a symbolic value')
        if op in ('fptrunc', 'fpext'):
            if isinstance(v, float):
                return struct.unpack('f', struct.pack('f', v))[0] if op == 'fptrunc' else v
            return v
        raise Unsupported(op)


_MODULE = None


def module():
    global _MODULE
    if _MODULE is None:
        _MODULE = Module(build_ir())
    return _MODULE


# --------------------------------------------------------------------------------------------------
# harness helpers for the DTW structs
# --------------------------------------------------------------------------------------------------
SETTINGS_FIELDS = ['window', 'max_dist', 'max_step', 'max_length_diff', 'penalty', 'psi_1b', 'psi_1e', 'psi_2b',
                   'psi_2e', 'use_pruning', 'only_ub', 'inner_dist', 'window_type']
SETTINGS_DEFAULT = dict(window=0, max_dist=0.0, max_step=0.0, max_length_diff=0, penalty=0.0, psi_1b=0, psi_1e=0,
                        psi_2b=0, psi_2e=0, use_pruning=False, only_ub=False, inner_dist=0, window_type=0)


def mk_settings(M, **kw):
    d = dict(SETTINGS_DEFAULT)
    for k, v in kw.items():
        if k not in d:
            raise KeyError(k)
        d[k] = v
    for k in ('use_pruning', 'only_ub'):
        d[k] = 1 if d[k] else 0       # stored as i8
    return M.new_struct('settings', '%struct.DTWSettings_s', [d[n] for n in SETTINGS_FIELDS])


def mk_block(M, rb, re_, cb, ce, triu):
    return M.new_struct('block', '%struct.DTWBlock_s', [rb, re_, cb, ce, 1 if triu else 0])
