"""Concrete replay of the C engine: the working tree's C files compiled to a scratch shared library, driven through
ctypes with exactly-sized, canary-fenced buffers."""
import ctypes
import math

from . import irsym

c_double_p = ctypes.POINTER(ctypes.c_double)
c_ssize_p = ctypes.POINTER(ctypes.c_ssize_t)


class CSettings(ctypes.Structure):
    _fields_ = [('window', ctypes.c_ssize_t), ('max_dist', ctypes.c_double), ('max_step', ctypes.c_double),
                ('max_length_diff', ctypes.c_ssize_t), ('penalty', ctypes.c_double), ('psi_1b', ctypes.c_ssize_t),
                ('psi_1e', ctypes.c_ssize_t), ('psi_2b', ctypes.c_ssize_t), ('psi_2e', ctypes.c_ssize_t),
                ('use_pruning', ctypes.c_bool), ('only_ub', ctypes.c_bool), ('inner_dist', ctypes.c_int),
                ('window_type', ctypes.c_int)]


class CBlock(ctypes.Structure):
    _fields_ = [('rb', ctypes.c_ssize_t), ('re', ctypes.c_ssize_t), ('cb', ctypes.c_ssize_t), ('ce', ctypes.c_ssize_t),
                ('triu', ctypes.c_bool)]


class CWps(ctypes.Structure):
    _fields_ = [('ldiff', ctypes.c_ssize_t), ('ldiffr', ctypes.c_ssize_t), ('ldiffc', ctypes.c_ssize_t),
                ('window', ctypes.c_ssize_t), ('width', ctypes.c_ssize_t), ('length', ctypes.c_ssize_t),
                ('ri1', ctypes.c_ssize_t), ('ri2', ctypes.c_ssize_t), ('ri3', ctypes.c_ssize_t),
                ('overlap_left_ri', ctypes.c_ssize_t), ('overlap_right_ri', ctypes.c_ssize_t),
                ('max_step', ctypes.c_double), ('max_dist', ctypes.c_double), ('penalty', ctypes.c_double)]


_LIB = None
CANARY = 7.25e300
NCAN = 8


def lib():
    global _LIB
    if _LIB is None:
        L = ctypes.CDLL(irsym.build_native())
        D, I, S = ctypes.c_double, ctypes.c_ssize_t, ctypes.POINTER(CSettings)
        L.dtw_distance.restype = D
        L.dtw_distance.argtypes = [c_double_p, I, c_double_p, I, S]
        L.dtw_distance_ndim.restype = D
        L.dtw_distance_ndim.argtypes = [c_double_p, I, c_double_p, I, ctypes.c_int, S]
        for n in ('ub_euclidean', 'ub_euclidean_euclidean', 'euclidean_distance', 'euclidean_distance_euclidean'):
            getattr(L, n).restype = D
            getattr(L, n).argtypes = [c_double_p, I, c_double_p, I]
        for n in ('ub_euclidean_ndim', 'ub_euclidean_ndim_euclidean', 'euclidean_distance_ndim',
                  'euclidean_distance_ndim_euclidean'):
            getattr(L, n).restype = D
            getattr(L, n).argtypes = [c_double_p, I, c_double_p, I, ctypes.c_int]
        for n in ('lb_keogh', 'lb_keogh_euclidean'):
            getattr(L, n).restype = D
            getattr(L, n).argtypes = [c_double_p, I, c_double_p, I, S]
        L.dtw_settings_wps_length.restype = I
        L.dtw_settings_wps_length.argtypes = [I, I, S]
        L.dtw_settings_wps_width.restype = I
        L.dtw_settings_wps_width.argtypes = [I, I, S]
        B = ctypes.c_bool
        L.dtw_warping_paths.restype = D
        L.dtw_warping_paths.argtypes = [c_double_p, c_double_p, I, c_double_p, I, B, B, B, S]
        L.dtw_warping_paths_ndim.restype = D
        L.dtw_warping_paths_ndim.argtypes = [c_double_p, c_double_p, I, c_double_p, I, B, B, B, ctypes.c_int, S]
        L.dtw_expand_wps.restype = None
        L.dtw_expand_wps.argtypes = [c_double_p, c_double_p, I, I, S]
        L.dtw_expand_wps_slice.restype = None
        L.dtw_expand_wps_slice.argtypes = [c_double_p, c_double_p, I, I, I, I, I, I, S]
        L.dtw_best_path.restype = I
        L.dtw_best_path.argtypes = [c_double_p, c_ssize_p, c_ssize_p, I, I, S]
        L.dtw_warping_path.restype = D
        L.dtw_warping_path.argtypes = [c_double_p, I, c_double_p, I, c_ssize_p, c_ssize_p, c_ssize_p, S]
        L.dtw_warping_path_ndim.restype = D
        L.dtw_warping_path_ndim.argtypes = [c_double_p, I, c_double_p, I, c_ssize_p, c_ssize_p, c_ssize_p, ctypes.c_int, S]
        L.dtw_distances_length.restype = I
        L.dtw_distances_length.argtypes = [ctypes.POINTER(CBlock), I, I]
        L.dtw_distances_ptrs.restype = I
        L.dtw_distances_ptrs.argtypes = [ctypes.POINTER(c_double_p), I, c_ssize_p, c_double_p, ctypes.POINTER(CBlock), S]
        L.dtw_distances_matrix.restype = I
        L.dtw_distances_matrix.argtypes = [c_double_p, I, I, c_double_p, ctypes.POINTER(CBlock), S]
        L.dtw_distances_ndim_matrix.restype = I
        L.dtw_distances_ndim_matrix.argtypes = [c_double_p, I, I, ctypes.c_int, c_double_p, ctypes.POINTER(CBlock), S]
        L.dtw_distances_ndim_ptrs.restype = I
        L.dtw_distances_ndim_ptrs.argtypes = [ctypes.POINTER(c_double_p), I, c_ssize_p, ctypes.c_int, c_double_p,
                                              ctypes.POINTER(CBlock), S]
        L.dtw_dba_ptrs.restype = None
        L.dtw_dba_ptrs.argtypes = [ctypes.POINTER(c_double_p), I, c_ssize_p, c_double_p, I,
                                   ctypes.POINTER(ctypes.c_ubyte), ctypes.c_int, ctypes.c_int, S]
        L.dtw_dba_matrix.restype = None
        L.dtw_dba_matrix.argtypes = [c_double_p, I, I, c_double_p, I, ctypes.POINTER(ctypes.c_ubyte), ctypes.c_int,
                                     ctypes.c_int, S]
        _LIB = L
    return _LIB


def settings(cs):
    d = dict(irsym.SETTINGS_DEFAULT)
    d.update(cs)
    for k in ('max_dist', 'max_step', 'penalty'):
        d[k] = float(d[k])
    for k in ('use_pruning', 'only_ub'):
        d[k] = bool(d[k])
    return CSettings(**d)


class Fenced:
    """double buffer with canaries before and after the exactly-sized payload"""

    def __init__(self, vals=None, n=None, fill=0.0):
        if vals is not None:
            vals = [float(v) for v in vals]
            n = len(vals)
        else:
            vals = [fill] * n
        self.n = n
        self.raw = (ctypes.c_double * (n + 2 * NCAN))(*([CANARY] * NCAN + vals + [CANARY] * NCAN))
        self.ptr = ctypes.cast(ctypes.byref(self.raw, 8 * NCAN), c_double_p)

    def values(self):
        return list(self.raw[NCAN:NCAN + self.n])

    def intact(self):
        return all(self.raw[i] == CANARY for i in range(NCAN)) and \
            all(self.raw[NCAN + self.n + i] == CANARY for i in range(NCAN))


def flat(x):
    out = []
    for v in x:
        if isinstance(v, (list, tuple)):
            out.extend(float(w) for w in v)
        else:
            out.append(float(v))
    return out


def distance(s1, s2, cs, ndim=1):
    L = lib()
    a, b = Fenced(flat(s1)), Fenced(flat(s2))
    st = settings(cs)
    if ndim == 1:
        r = L.dtw_distance(a.ptr, len(s1), b.ptr, len(s2), ctypes.byref(st))
    else:
        r = L.dtw_distance_ndim(a.ptr, len(s1), b.ptr, len(s2), ndim, ctypes.byref(st))
    return r
