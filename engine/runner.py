"""Check driver: task pool, counterexample replay, known findings, evidence, exit codes.

exit 0: everything explored held (known findings are printed as KNOWN-FINDING lines)
exit 1: a replay-confirmed violation that /verif/known_findings.json does not list (VIOLATION line)
exit 3: harness error (a solver model that does not replay, too many inconclusive queries, crash)
"""
import argparse
import concurrent.futures as cf
import hashlib
import importlib
import json
import multiprocessing as mp
import os
import random
import subprocess
import sys
import time
import traceback
from fractions import Fraction

ROOT = os.path.dirname(os.path.dirname(os.path.abspath(__file__)))
REPO = os.environ.get('VERIF_REPO', '/repo')
EVIDENCE_DIR = os.environ.get('VERIF_EVIDENCE_DIR') or os.path.join(ROOT, 'evidence')   # override: dev sweeps on changed trees
REPLAY_DIR = os.path.join(ROOT, 'replays')
KNOWN_FILE = os.path.join(ROOT, 'known_findings.json')
GUARD_ENV = 'DTAIDISTANCE_VERIF'


# ----------------------------------------------------------------------------------------------
def jnum(x):
    """number -> JSON value (Fractions as 'p/q' strings, inf as 'inf')"""
    if isinstance(x, Fraction):
        return str(x.numerator) if x.denominator == 1 else '%d/%d' % (x.numerator, x.denominator)
    if isinstance(x, float):
        if x != x:
            return 'nan'
        if x in (float('inf'), float('-inf')):
            return 'inf' if x > 0 else '-inf'
        return x
    if isinstance(x, (list, tuple)):
        return [jnum(v) for v in x]
    if isinstance(x, dict):
        return {k: jnum(v) for k, v in x.items()}
    try:
        import numpy as np
        if isinstance(x, np.ndarray):
            return jnum(x.tolist())
        if isinstance(x, np.integer):
            return int(x)
        if isinstance(x, np.floating):
            return jnum(float(x))
        if isinstance(x, np.bool_):
            return bool(x)
    except ImportError:
        pass
    return x


def unj(x):
    """JSON value -> Fraction / float('inf') / nested lists"""
    if isinstance(x, str):
        if x in ('inf', '-inf', 'nan'):
            return float(x)
        try:
            return Fraction(x)
        except ValueError:
            return x
    if isinstance(x, bool) or x is None:
        return x
    if isinstance(x, int):
        return Fraction(x)
    if isinstance(x, float):
        return Fraction(x)
    if isinstance(x, list):
        return [unj(v) for v in x]
    if isinstance(x, dict):
        return {k: unj(v) for k, v in x.items()}
    return x


def tofloat(x):
    if isinstance(x, list):
        return [tofloat(v) for v in x]
    if isinstance(x, (Fraction, int)) and not isinstance(x, bool):
        return float(x)
    return x


# ----------------------------------------------------------------------------------------------
def load_known(pid):
    if not os.path.exists(KNOWN_FILE):
        return []
    with open(KNOWN_FILE) as f:
        data = json.load(f)
    return [e for e in data.get('findings', []) if e.get('property') == pid]


def active_regions(pid):
    """ids of known findings whose failing region is excluded from the solver queries"""
    return sorted(e['id'] for e in load_known(pid) if e.get('status') == 'known')


# ----------------------------------------------------------------------------------------------
def _worker_init(env, repo):
    for k, v in env.items():
        if v is None:
            os.environ.pop(k, None)
        else:
            os.environ[k] = str(v)
    os.environ[GUARD_ENV] = '1'
    sys.path.insert(0, ROOT)
    sys.path.insert(0, os.path.join(repo, 'src'))
    sys.setrecursionlimit(20000)


def _worker_run(modname, cfg):
    t0 = time.time()
    try:
        mod = importlib.import_module(modname)
        res = mod.run_task(cfg)
        res.setdefault('cfg', cfg)
        res['cex'] = [jnum(c) for c in res.get('cex', [])]
        res['wall_s'] = time.time() - t0
        return res
    except BaseException as e:      # noqa
        return {'cfg': cfg, 'crash': '%s: %s\n%s' % (type(e).__name__, e, traceback.format_exc()[-3000:]),
                'wall_s': time.time() - t0}


def run_pool(modname, tasks, jobs, budget_s, progress=True):
    """tasks: list of cfg dicts (cfg.get('env') selects the worker environment). returns (results, skipped)"""
    groups = {}
    for t in tasks:
        key = json.dumps(t.get('env', {}), sort_keys=True)
        groups.setdefault(key, []).append(t)
    results, skipped = [], 0
    t_all = time.time() + budget_s
    remaining = sum(len(ts) for ts in groups.values())
    for key, ts in groups.items():
        env = json.loads(key)
        # worker environments run one after another: each gets a share of what is left of the budget in proportion to its
        # number of tasks (at least a minute), so that one slow group cannot starve the others
        left_all = max(0.0, t_all - time.time())
        share = left_all if remaining <= len(ts) else max(min(60.0, left_all), left_all * len(ts) / remaining)
        t_end = time.time() + share
        remaining -= len(ts)
        ctx = mp.get_context('spawn')
        ex = cf.ProcessPoolExecutor(max_workers=jobs, mp_context=ctx, initializer=_worker_init, initargs=(env, REPO))
        futs = [ex.submit(_worker_run, modname, t) for t in ts]
        pending = set(futs)
        try:
            while pending:
                left = t_end - time.time()
                if left <= 0:
                    break
                done, pending = cf.wait(pending, timeout=min(left, 30), return_when=cf.FIRST_COMPLETED)
                for f in done:
                    try:
                        results.append(f.result())
                    except Exception as e:   # worker died
                        results.append({'cfg': {}, 'crash': 'worker died: %r' % (e,)})
        finally:
            skipped += len(pending)
            for f in pending:
                f.cancel()
            procs = list(getattr(ex, '_processes', {}).values())
            ex.shutdown(wait=False, cancel_futures=True)
            if pending:
                for p in procs:
                    try:
                        p.kill()
                    except Exception:
                        pass
    return results, skipped


# ----------------------------------------------------------------------------------------------
def replay_subprocess(pid, cex, timeout=600):
    """replay one counterexample against the real code in a clean interpreter"""
    os.makedirs(REPLAY_DIR, exist_ok=True)
    h = hashlib.sha1(json.dumps(cex, sort_keys=True).encode()).hexdigest()[:12]
    path = os.path.join(REPLAY_DIR, '%s-%s.json' % (pid, h))
    with open(path, 'w') as f:
        json.dump(cex, f, indent=1, sort_keys=True)
    env = dict(os.environ)
    env.pop('DTAIDISTANCE_TESTWITHOUTNUMPY', None)
    for k, v in (cex.get('env') or {}).items():
        if v is not None:
            env[k] = str(v)
    try:
        p = subprocess.run([sys.executable, '-m', 'engine.runner', pid, '--replay', path, '--json'],
                           cwd=ROOT, env=env, capture_output=True, text=True, timeout=timeout)
    except subprocess.TimeoutExpired:
        return path, {'reproduced': False, 'error': 'replay timeout'}
    out = p.stdout.strip().splitlines()
    for line in reversed(out):
        if line.startswith('{'):
            try:
                return path, json.loads(line)
            except ValueError:
                pass
    return path, {'reproduced': False, 'error': 'replay produced no verdict: ' + (p.stderr or p.stdout)[-800:]}


def do_replay(mod, path, as_json):
    with open(path) as f:
        cex = json.load(f)
    sys.path.insert(0, os.path.join(REPO, 'src'))
    try:
        res = mod.replay(cex)
    except Exception as e:
        res = {'reproduced': False, 'error': '%s: %s' % (type(e).__name__, e), 'trace': traceback.format_exc()[-1500:]}
    if as_json:
        print(json.dumps(jnum(res)))
        return 0
    print(json.dumps(jnum(res), indent=1))
    if res.get('reproduced'):
        print('VIOLATION property=%s replay=%s' % (mod.ID, path))
        return 1
    return 0


# ----------------------------------------------------------------------------------------------
def source_hashes(files):
    out = {}
    for f in files:
        p = os.path.join(REPO, f)
        try:
            with open(p, 'rb') as fh:
                out[f] = hashlib.sha1(fh.read()).hexdigest()[:16]
        except OSError:
            out[f] = 'missing'
    return out


def main(argv=None):
    ap = argparse.ArgumentParser()
    ap.add_argument('pid')
    ap.add_argument('--tier', default=os.environ.get('VERIF_TIER', 'quick'), choices=['quick', 'thorough'])
    ap.add_argument('--replay')
    ap.add_argument('--json', action='store_true')
    ap.add_argument('--jobs', type=int, default=int(os.environ.get('VERIF_JOBS', '0')) or (os.cpu_count() or 4))
    ap.add_argument('--only', help='substring filter on the task harness name (debugging; evidence marks it)')
    ap.add_argument('--budget', type=float)
    a = ap.parse_args(argv)
    sys.path.insert(0, ROOT)
    os.environ[GUARD_ENV] = '1'
    mod = importlib.import_module('checks.' + a.pid)
    if a.replay:
        return do_replay(mod, a.replay, a.json)

    seed = int(os.environ.get('VERIF_SEED', '0') or 0)
    t0 = time.time()
    pid = mod.ID
    if hasattr(mod, 'prepare'):
        mod.prepare(a.tier)
    tasks = mod.tasks(a.tier, seed)
    if a.only:
        tasks = [t for t in tasks if a.only in t.get('harness', '')]
    if a.tier == 'thorough' and not a.only:
        # the thorough tier starts with everything the quick tier runs (same task descriptions), so that a budget cut can
        # only remove depth, never the breadth the quick tier already has
        def key(t):
            return json.dumps({k: v for k, v in t.items() if k not in ('tier', 'est')}, sort_keys=True, default=str)
        qt = mod.tasks('quick', seed)
        seen = {key(dict(t, tier_='quick')) for t in qt}
        # a thorough task is dropped only if it is the very same description *and* carries no tier-dependent behaviour
        # (task descriptions record their tier, so in practice nothing is dropped: the quick tasks are repeated at thorough depth)
        rest = [t for t in tasks if key(dict(t, tier_=t.get('tier'))) not in seen]
        if all('est' in t for t in rest):
            srt = sorted(rest, key=lambda t: t['est'])
            half = len(srt) // 2
            rest = srt[:half] + sorted(srt[half:], key=lambda t: -t['est'])
        tasks = qt + rest
    elif a.tier == 'thorough' and all('est' in t for t in tasks):
        # under a wall-clock budget: the cheaper half first (breadth: everything the quick tier covers and more), then the expensive
        # half largest-first (packing); what the budget cuts off is then the deep end, and it is reported as skipped
        srt = sorted(tasks, key=lambda t: t['est'])
        half = len(srt) // 2
        tasks = srt[:half] + sorted(srt[half:], key=lambda t: -t['est'])
    budget = a.budget or mod.BUDGET[a.tier]
    results, skipped = run_pool('checks.' + a.pid, tasks, a.jobs, budget)

    from engine import smt
    total = smt.Stats()
    crashes, cexs, samples, inconcl, truncated = [], [], [], 0, 0
    per_harness = {}
    twins_ok, twins_bad = 0, []
    validated = 0
    for r in results:
        if 'crash' in r:
            crashes.append(r)
            continue
        total.add(r.get('stats', {}))
        h = r['cfg'].get('harness', '?')
        ph = per_harness.setdefault(h, {'tasks': 0, 'paths': 0, 'queries': 0, 'unsat': 0, 'sat': 0, 'unknown': 0,
                                        'wall_s': 0.0})
        ph['tasks'] += 1
        for k in ('paths', 'queries', 'unsat', 'sat', 'unknown'):
            ph[k] += r.get('stats', {}).get(k, 0)
        ph['wall_s'] = round(ph['wall_s'] + r.get('wall_s', 0), 2)
        cexs.extend(r.get('cex', []))
        inconcl += r.get('inconclusive', 0)
        truncated += 1 if r.get('truncated') else 0
        validated += r.get('validated', 0)
        if r.get('twin') is True:
            twins_ok += 1
        elif r.get('twin') is False:
            twins_bad.append(r['cfg'])
        twins_ok += r.get('stats', {}).get('twins_ok', 0)
        if r.get('stats', {}).get('twin_attempts', 0) >= 3 and not r.get('stats', {}).get('twins_ok', 0):
            twins_bad.append(r['cfg'])
        if r.get('sample') is not None and len(samples) < 12:
            samples.append(r['sample'])

    if os.environ.get('VERIF_DUMP_CEX'):
        with open(os.environ['VERIF_DUMP_CEX'], 'w') as f:
            json.dump(cexs, f)
    # ---- replay counterexamples (dedup by harness+claim, cap per harness)
    confirmed, unconfirmed, soft_unconfirmed = [], [], 0
    seen_keys = {}
    for c in cexs:
        key = (c.get('harness'), c.get('claim'))
        seen_keys.setdefault(key, [])
        if len(seen_keys[key]) >= 6:
            continue
        seen_keys[key].append(c)
    to_replay = [c for v in seen_keys.values() for c in v]
    with cf.ThreadPoolExecutor(max_workers=min(8, a.jobs)) as tp:
        for c, (path, res) in zip(to_replay, tp.map(lambda c: replay_subprocess(pid, c), to_replay)):
            if res.get('reproduced'):
                confirmed.append((c, path, res))
            elif c.get('soft'):
                soft_unconfirmed += 1
            else:
                unconfirmed.append((c, path, res))
    validated += len(to_replay)
    inconcl += soft_unconfirmed

    # ---- known findings
    known = load_known(pid)
    known_lines, regress = [], []
    for e in known:
        w = e.get('witness')
        if not w:
            continue
        path, res = replay_subprocess(pid, w)
        validated += 1
        if e.get('status') == 'known':
            if res.get('reproduced'):
                known_lines.append('KNOWN-FINDING: property=%s %s [%s]' % (pid, e.get('what', ''), e['id']))
            else:
                print('note: known finding %s no longer reproduces (%s)' % (e['id'], res.get('error', 'passes')))
        else:   # fixed: must pass
            if res.get('reproduced'):
                regress.append((w, path, res, e))

    violations = []
    for c, path, res in confirmed:
        fid = c.get('finding')     # set by a harness only when the cex lies inside a known region (not excluded)
        violations.append((c, path, res))
    for w, path, res, e in regress:
        violations.append((w, path, res))

    wall = time.time() - t0
    explored = total.queries
    frac_inconcl = (total.unknown + inconcl) / max(1, explored + inconcl)
    harness_error = None
    if crashes:
        harness_error = '%d task(s) crashed: %s' % (len(crashes), crashes[0]['crash'][-600:])
    elif unconfirmed:
        c, path, res = unconfirmed[0]
        harness_error = '%d solver model(s) did not reproduce on the real code, e.g. %s: %s' % (
            len(unconfirmed), path, json.dumps(jnum(res))[:600])
    elif twins_bad:
        harness_error = 'reachability twin not violated for %d configuration(s), e.g. %r' % (len(twins_bad), twins_bad[0])
    elif frac_inconcl > 0.10:
        harness_error = 'inconclusive share %.1f%% exceeds 10%%' % (100 * frac_inconcl)
    elif a.tier == 'quick' and skipped > 0.25 * max(1, len(tasks)):
        harness_error = 'budget exhausted: %d of %d configurations were not explored (the quick tier is sized to finish; a slowdown of this size means the code under test changed its path structure)' % (skipped, len(tasks))
    elif explored == 0:
        harness_error = 'nothing explored'

    ev = {
        'property_id': pid,
        'tier': a.tier,
        'seed': seed,
        'level': 'model_checking',
        'wall_s': round(wall, 2),
        'violations': len(violations),
        'coverage': {
            'states': max(1, total.paths),
            'transitions': max(1, total.branch_queries + total.queries),
            'traces_validated_against_impl': validated,
            'evaluations': total.queries,
            'distinct_nontrivial': total.nontrivial,
            'rule': getattr(mod, 'RULE', ''),
            'samples': samples or [{'note': 'no sample produced'}],
            'exhaustive': False,
            'explanation': getattr(mod, 'EXPLANATION', ''),
            'functions_encoded': getattr(mod, 'FUNCTIONS', []),
            'source_hashes': source_hashes(getattr(mod, 'SOURCES', [])),
            'bounds': mod.BOUNDS[a.tier] if hasattr(mod, 'BOUNDS') else {},
            'outside_claim': getattr(mod, 'OUTSIDE', []),
            'configurations': len(tasks),
            'configurations_finished': len(results) - len(crashes),
            'configurations_skipped_budget': skipped,
            'configurations_truncated': truncated,
            'paths': total.paths,
            'queries_discharged': total.queries,
            'queries_unsat': total.unsat,
            'queries_sat': total.sat,
            'queries_inconclusive': total.unknown + inconcl,
            'branch_feasibility_queries': total.branch_queries,
            'solver_seconds': round(total.solver_s, 2),
            'solver': 'z3 %s (python API), fresh context per worker' % _z3v(),
            'reachability_twins_violated_as_required': twins_ok,
            'counterexamples_replayed': len(to_replay),
            'counterexamples_confirmed': len(confirmed),
            'counterexamples_not_reproduced': len(unconfirmed),
            'known_findings': [l for l in known_lines],
            'per_harness': per_harness,
            'filter': a.only or None,
            'harness_error': harness_error,
        },
        'assumptions': getattr(mod, 'ASSUMPTIONS', []),
    }
    evdir = EVIDENCE_DIR if not a.only else os.path.join(ROOT, '.cache', 'evidence_filtered')   # a filtered (debugging) run never replaces the evidence
    os.makedirs(evdir, exist_ok=True)
    with open(os.path.join(evdir, pid + '.json'), 'w') as f:
        json.dump(jnum(ev), f, indent=1)

    for l in known_lines:
        print(l)
    if os.environ.get('VERIF_VERBOSE'):
        for r in sorted(results, key=lambda r: -r.get('wall_s', 0))[:12]:
            print('  task %6.1fs %s' % (r.get('wall_s', 0), json.dumps({k: v for k, v in r['cfg'].items() if k not in ('env', 'tier', 'seed', 'opts')})), r.get('stats', {}))
    print('%s %s: %d configurations (%d skipped, %d truncated), %d paths, %d queries '
          '(%d unsat, %d sat, %d inconclusive), solver %.1fs, wall %.1fs' % (
              pid, a.tier, len(tasks), skipped, truncated, total.paths, total.queries, total.unsat, total.sat,
              total.unknown + inconcl, total.solver_s, wall))
    if violations:
        shown = set()
        for c, path, res in violations:
            k = (c.get('harness'), c.get('claim'))
            if k in shown:
                continue
            shown.add(k)
            print('  violated: [%s] %s -- observed %s expected %s' % (
                c.get('harness'), c.get('claim'), json.dumps(jnum(res.get('observed')))[:200],
                json.dumps(jnum(res.get('expected')))[:200]))
            print('VIOLATION property=%s replay=%s' % (pid, path))
        return 1
    if harness_error:
        print('HARNESS-ERROR: ' + harness_error)
        return 3
    print('OK property=%s held on everything explored' % pid)
    return 0


def _z3v():
    try:
        import z3
        return z3.get_version_string()
    except Exception:
        return '?'


if __name__ == '__main__':
    sys.exit(main())
