"""Reference models (oracles), written independently of the code under test.

symbolic versions work on z3 terms through smt.ER; concrete versions work on Fractions (exact) and are used
when a solver model is replayed against the real code.
"""
import math
from fractions import Fraction

import z3

from . import smt
from .smt import ER, er_min, er_min2, INF


def norm_psi(psi):
    if psi is None:
        return (0, 0, 0, 0)
    if isinstance(psi, int):
        return (psi, psi, psi, psi)
    return tuple(psi)


def band_fn(r, c, window):
    if window is None or window == 0:
        window = max(r, c)
    lo_off = max(0, r - c) + window - 1
    hi_off = max(0, c - r) + window

    def in_band(i, j):
        return max(0, i - lo_off) <= j < min(c, i + hi_off)
    return in_band


def psi_degenerate(r, c, psi):
    """psi combinations that admit an empty alignment (excluded by the property statements)"""
    p1b, p1e, p2b, p2e = norm_psi(psi)
    return (p1e >= r and p2b >= c) or (p1b >= r and p2e >= c)


# --------------------------------------------------------------------------------------------------
# symbolic
# --------------------------------------------------------------------------------------------------
def spec_matrix(D, r, c, window=None, penalty=0, psi=None, max_step=None):
    """(r+1)x(c+1) matrix of ER: W[i+1][j+1] = optimal cost of an admissible partial path ending at (i,j)."""
    p1b, p1e, p2b, p2e = norm_psi(psi)
    inb = band_fn(r, c, window)
    W = [[ER.infinity() for _ in range(c + 1)] for _ in range(r + 1)]
    for j in range(min(p2b, c) + 1):
        W[0][j] = ER(smt.rv(0))
    for i in range(min(p1b, r) + 1):
        W[i][0] = ER(smt.rv(0))
    pen = ER.of(penalty)
    for i in range(r):
        for j in range(c):
            if not inb(i, j):
                continue
            best = er_min([W[i][j], W[i][j + 1] + pen, W[i + 1][j] + pen])
            v = ER.of(D[i][j]) + best
            if max_step is not None:
                v = v.guard(D[i][j] <= max_step)
            W[i + 1][j + 1] = v
    return W


def spec_final(W, r, c, psi=None):
    p1b, p1e, p2b, p2e = norm_psi(psi)
    cands = [W[r][c]]
    for k in range(1, min(p1e, r - 1) + 1):
        cands.append(W[r - k][c])
    for k in range(1, min(p2e, c - 1) + 1):
        cands.append(W[r][c - k])
    return er_min(cands)


def spec_dtw(D, r, c, window=None, penalty=0, psi=None, max_step=None):
    return spec_final(spec_matrix(D, r, c, window, penalty, psi, max_step), r, c, psi)


def enum_paths(r, c, window=None, psi=None):
    """all warping paths (lists of (i,j)) that start/end in the psi-relaxed corners and stay in the band"""
    p1b, p1e, p2b, p2e = norm_psi(psi)
    inb = band_fn(r, c, window)
    starts = {(i, 0) for i in range(0, min(p1b, r - 1) + 1)} | {(0, j) for j in range(0, min(p2b, c - 1) + 1)}
    ends = {(r - 1, c - 1 - k) for k in range(0, min(p2e, c - 1) + 1)} | \
           {(r - 1 - k, c - 1) for k in range(0, min(p1e, r - 1) + 1)}
    out = []

    def rec(path):
        i, j = path[-1]
        if (i, j) in ends:
            out.append(list(path))
        for di, dj in ((1, 1), (1, 0), (0, 1)):
            ni, nj = i + di, j + dj
            if ni < r and nj < c and inb(ni, nj):
                path.append((ni, nj))
                rec(path)
                path.pop()
    for s in sorted(starts):
        if inb(*s):
            rec([s])
    return out


def path_cost(path, D, penalty=0):
    """symbolic / numeric cost of one path: sum of point distances + penalty per non-diagonal step"""
    cost = D[path[0][0]][path[0][1]]
    nd = 0
    for (pi, pj), (i, j) in zip(path, path[1:]):
        cost = cost + D[i][j]
        if not (i == pi + 1 and j == pj + 1):
            nd += 1
    if nd:
        cost = cost + nd * penalty
    return cost


def enum_dtw(D, r, c, window=None, penalty=0, psi=None, max_step=None):
    """min over explicitly enumerated paths (ER)"""
    cands = []
    for p in enum_paths(r, c, window, psi):
        v = ER(path_cost(p, D, penalty))
        if max_step is not None:
            v = v.guard(z3.And(*[D[i][j] <= max_step for i, j in p]))
        cands.append(v)
    return er_min(cands)


def valid_path(path, r, c, window=None, psi=None):
    """concrete structural validity of a returned path"""
    if not path:
        return False, 'empty path'
    p1b, p1e, p2b, p2e = norm_psi(psi)
    inb = band_fn(r, c, window)
    i0, j0 = path[0]
    if not ((j0 == 0 and 0 <= i0 <= p1b) or (i0 == 0 and 0 <= j0 <= p2b)):
        return False, 'start %r outside the psi-relaxed corner' % ((i0, j0),)
    ie, je = path[-1]
    if not ((ie == r - 1 and 0 <= c - 1 - je <= p2e) or (je == c - 1 and 0 <= r - 1 - ie <= p1e)):
        return False, 'end %r outside the psi-relaxed corner' % ((ie, je),)
    for k, (i, j) in enumerate(path):
        if not (0 <= i < r and 0 <= j < c):
            return False, 'pair %r outside the matrix' % ((i, j),)
        if not inb(i, j):
            return False, 'pair %r outside the window band' % ((i, j),)
        if k:
            pi, pj = path[k - 1]
            if (i - pi, j - pj) not in ((1, 1), (1, 0), (0, 1)):
                return False, 'illegal step %r -> %r' % ((pi, pj), (i, j))
    if len(path) > r + c:
        return False, 'too long'
    return True, ''


# --------------------------------------------------------------------------------------------------
# concrete (Fractions; INF = float inf)
# --------------------------------------------------------------------------------------------------
def conc_matrix(D, r, c, window=None, penalty=0, psi=None, max_step=None):
    p1b, p1e, p2b, p2e = norm_psi(psi)
    inb = band_fn(r, c, window)
    W = [[INF] * (c + 1) for _ in range(r + 1)]
    for j in range(min(p2b, c) + 1):
        W[0][j] = Fraction(0)
    for i in range(min(p1b, r) + 1):
        W[i][0] = Fraction(0)
    for i in range(r):
        for j in range(c):
            if not inb(i, j):
                continue
            if max_step is not None and D[i][j] > max_step:
                continue
            W[i + 1][j + 1] = D[i][j] + min(W[i][j], W[i][j + 1] + penalty, W[i + 1][j] + penalty)
    return W


def conc_final(W, r, c, psi=None):
    p1b, p1e, p2b, p2e = norm_psi(psi)
    cands = [W[r][c]]
    for k in range(1, min(p1e, r - 1) + 1):
        cands.append(W[r - k][c])
    for k in range(1, min(p2e, c - 1) + 1):
        cands.append(W[r][c - k])
    return min(cands)


def conc_dtw(D, r, c, window=None, penalty=0, psi=None, max_step=None):
    return conc_final(conc_matrix(D, r, c, window, penalty, psi, max_step), r, c, psi)


def conc_sq_matrix(s1, s2):
    return [[(Fraction(a) - Fraction(b)) ** 2 for b in s2] for a in s1]


def conc_abs_matrix(s1, s2):
    return [[abs(Fraction(a) - Fraction(b)) for b in s2] for a in s1]


def close(a, b, rel=1e-9, abs_=1e-12):
    """float comparison used only when replaying a solver model on the real (floating point) code"""
    if a is None or b is None:
        return a is b
    a, b = float(a), float(b)
    if math.isinf(a) or math.isinf(b):
        return a == b
    if math.isnan(a) or math.isnan(b):
        return False
    return abs(a - b) <= max(abs_, rel * max(abs(a), abs(b)))
