"""Shared pieces of the DTW harnesses: module loading/patching, symbolic inputs (cost-matrix mode and
series mode), option grids, model extraction and concrete replay helpers."""
import importlib
import itertools
import math
import os
import random
import sys
from fractions import Fraction

import z3

from . import smt, pysym, spec
from .pysym import SReal
from .smt import INF, rv

_LOADED = {}


def load(*names):
    """import repository modules fresh from /repo/src (working tree) and install the PYSYM models"""
    out = []
    for n in names:
        full = 'dtaidistance.' + n
        if full not in _LOADED:
            m = importlib.import_module(full)
            pysym.patch_module(m)
            _LOADED[full] = m
        out.append(_LOADED[full])
    return out if len(out) > 1 else out[0]


def nonumpy():
    return os.environ.get('DTAIDISTANCE_TESTWITHOUTNUMPY') == '1'


# --------------------------------------------------------------------------------------------------
class CostMode:
    """user supplied inner-distance object: series are index tokens, inner_dist(x,y) = free d[x][y] >= 0.
    Every non-negative cost matrix is realisable through the public API, everything is linear."""
    kind = 'cost'

    def __init__(self, r, c, prefix='d', symmetric=False):
        self.r, self.c = r, c
        self.dm = [[z3.Real('%s_%d_%d' % (prefix, i, j)) for j in range(c)] for i in range(r)]
        self.assume = [x >= 0 for row in self.dm for x in row]
        self.s1 = list(range(r))
        self.s2 = list(range(c))
        dm = self.dm

        class Inner:
            @staticmethod
            def inner_dist(x, y):
                return SReal(dm[x][y])

            @staticmethod
            def result(x):
                return x

            @staticmethod
            def inner_val(x):
                return x
        self.inner = Inner
        self.D = dm

    def kw(self):
        return {'inner_dist': self.inner}

    def tr(self, t):          # transform of penalty / max_step / max_dist into the inner domain
        return t

    def unresult(self, res):  # inverse of the result transform on an implementation result
        return res.t if isinstance(res, SReal) else rv(res)

    def variables(self):
        return [x for row in self.dm for x in row]

    def inputs_from_model(self, m):
        return {'dm': [[smt.model_val(m, x) for x in row] for row in self.dm]}


class SeriesMode:
    kind = 'series'

    def __init__(self, r, c, inner='squared euclidean', ndim=1, shared=False, pa='a', pb='b'):
        self.r, self.c, self.innername, self.ndim = r, c, inner, ndim
        if ndim == 1:
            self.a = [z3.Real('%s%d' % (pa, i)) for i in range(r)]
            self.b = self.a[:c] if shared else [z3.Real('%s%d' % (pb, j)) for j in range(c)]
            self.s1 = [SReal(x) for x in self.a]
            self.s2 = [SReal(x) for x in self.b]
        else:
            self.a = [[z3.Real('%s%d_%d' % (pa, i, k)) for k in range(ndim)] for i in range(r)]
            self.b = [list(row) for row in self.a[:c]] if shared else \
                [[z3.Real('%s%d_%d' % (pb, j, k)) for k in range(ndim)] for j in range(c)]
            self.s1 = pysym.objarray([[SReal(x) for x in row] for row in self.a])
            self.s2 = pysym.objarray([[SReal(x) for x in row] for row in self.b])
        self.assume = []
        self.D = [[self.point(i, j) for j in range(c)] for i in range(r)]

    def point(self, i, j):
        if self.ndim == 1:
            t = self.a[i] - self.b[j]
            return pysym.square_term(t) if self.innername == 'squared euclidean' else smt.zabs(t)
        tot = None
        for k in range(self.ndim):
            q = pysym.square_term(self.a[i][k] - self.b[j][k])
            tot = q if tot is None else tot + q
        return tot if self.innername == 'squared euclidean' else pysym.sqrt_term(tot)

    def kw(self):
        return {'inner_dist': self.innername}

    def tr(self, t):
        return pysym.square_term(t) if self.innername == 'squared euclidean' else t

    def unresult(self, res):
        if self.innername != 'squared euclidean':
            return res.t if isinstance(res, SReal) else rv(res)
        if isinstance(res, SReal):
            t = res.t
            if z3.is_app(t) and t.decl().name() == 'SQRT' and t.decl().kind() == z3.Z3_OP_UNINTERPRETED:
                return t.arg(0)
            return pysym.square_term(t)
        return rv(Fraction(res) ** 2)

    def variables(self):
        if self.ndim == 1:
            return list(self.a) + [x for x in self.b if all(not x.eq(y) for y in self.a)]
        return [x for row in self.a for x in row] + [x for row in self.b for x in row]

    def inputs_from_model(self, m):
        if self.ndim == 1:
            return {'s1': [smt.model_val(m, x) for x in self.a], 's2': [smt.model_val(m, x) for x in self.b]}
        return {'s1': [[smt.model_val(m, x) for x in row] for row in self.a],
                's2': [[smt.model_val(m, x) for x in row] for row in self.b]}


# --------------------------------------------------------------------------------------------------
def windows(r, c, extra=1):
    return [None] + list(range(1, max(r, c) + 1 + extra))


def psi_options(r, c, tier, rnd, cap=2, nrandom=4):
    """None, ints, a fixed core of 4-tuples and a seeded slice (quick) / all (thorough) of the tuples <= cap"""
    out = [None]
    for p in range(1, cap + 1):
        if p <= min(r, c) and not spec.psi_degenerate(r, c, p):
            out.append(p)
    allt = [t for t in itertools.product(range(0, cap + 1), repeat=4)
            if t[0] <= r and t[1] <= r and t[2] <= c and t[3] <= c and any(t)
            and not spec.psi_degenerate(r, c, t)]
    core = [(1, 0, 0, 0), (0, 1, 0, 0), (0, 0, 1, 0), (0, 0, 0, 1), (1, 0, 0, 1), (0, 1, 1, 0), (0, 2, 0, 2),
            (2, 0, 2, 0), (1, 1, 1, 1)]
    core = [t for t in core if t in allt]
    if tier == 'thorough':
        out.extend(allt)
    else:
        out.extend(core)
        rest = [t for t in allt if t not in core]
        rnd.shuffle(rest)
        out.extend(rest[:nrandom])
    # psi equal to the full length (largest admissible value)
    for t in [(r, 0, 0, 0), (0, r, 0, 0), (0, 0, c, 0), (0, 0, 0, c)]:
        if t not in out and not spec.psi_degenerate(r, c, t):
            out.append(t)
    return [o for o in out if not (o is not None and spec.psi_degenerate(r, c, o))]


def model_inputs(m, mode, syms):
    d = mode.inputs_from_model(m)
    for k, v in syms.items():
        if v is not None:
            d[k] = smt.model_val(m, v)
    return d


# --------------------------------------------------------------------------------------------------
# concrete side (replay): build real inputs, exact oracle
# --------------------------------------------------------------------------------------------------
def fl(x):
    """Fraction -> float, nested"""
    if isinstance(x, list):
        return [fl(v) for v in x]
    if x is None:
        return None
    return float(x)


def exact(x):
    """float as exact Fraction, nested (the oracle sees exactly the doubles the code sees)"""
    if isinstance(x, list):
        return [exact(v) for v in x]
    if x is None:
        return None
    if isinstance(x, float) and math.isinf(x):
        return x
    return Fraction(x)


def conc_inner(dm):
    class Inner:
        @staticmethod
        def inner_dist(x, y):
            return dm[x][y]

        @staticmethod
        def result(x):
            return x

        @staticmethod
        def inner_val(x):
            return x
    return Inner


def conc_D(kind, inner, inputs):
    """exact point-distance matrix (internal representation) for concrete inputs given as floats"""
    if kind == 'cost':
        return exact(inputs['dm'])
    s1, s2 = exact(inputs['s1']), exact(inputs['s2'])
    if s1 and isinstance(s1[0], list):
        D = [[sum((x - y) ** 2 for x, y in zip(a, b)) for b in s2] for a in s1]
        if inner != 'squared euclidean':
            D = [[Fraction(math.sqrt(v)) for v in row] for row in D]   # inexact: ndim euclidean
        return D
    if inner == 'squared euclidean':
        return [[(a - b) ** 2 for b in s2] for a in s1]
    return [[abs(a - b) for b in s2] for a in s1]


def conc_tr(kind, inner, v):
    if v is None:
        return None
    v = exact(v)
    if kind == 'cost' or inner != 'squared euclidean':
        return v
    return v * v


def conc_result(kind, inner, v):
    if isinstance(v, float) and math.isinf(v):
        return v
    if kind == 'cost' or inner != 'squared euclidean':
        return float(v)
    return math.sqrt(v)


# --------------------------------------------------------------------------------------------------
_CEX_COUNT = {}
CEX_CAP = int(__import__('os').environ.get('VERIF_CEX_CAP', '3'))


def claim(stats, facts, neg, mode, syms, meta, lemmas='unary', refine=True, timeout_ms=None):
    """discharge one assertion.  returns None (holds), 'unknown', or a counterexample dict"""
    res, m = smt.decide(stats, facts, neg, lemmas=lemmas, timeout_ms=timeout_ms)
    if res == 'unsat':
        return None
    if res == 'unknown':
        return 'unknown'
    key = (meta.get('harness'), meta.get('claim'))
    if _CEX_COUNT.get(key, 0) >= CEX_CAP:
        # enough counterexamples of this kind were already produced by this task: this one is not refined / replayed
        stats.sat -= 1
        stats.unknown += 1
        return 'unknown'
    soft = False
    if refine and mode is not None and getattr(mode, 'kind', '') == 'series' and pysym.Mode.square == 'abstract':
        r2, m2 = smt.refine_exact(list(facts), neg, timeout_ms=30000)
        if r2 == 'sat':
            m = m2
        elif r2 == 'unsat':
            stats.sat -= 1
            stats.unknown += 1
            return 'unknown'      # abstraction too weak for this query: inconclusive, never a verdict
        else:
            soft = True
    _CEX_COUNT[key] = _CEX_COUNT.get(key, 0) + 1
    if _has_uf(list(facts) + [neg], ('EXP', 'DIV', 'CEIL')) or soft:
        # the solver's model fixes the abstracted functions only up to the lemma instances: look for a witness under their exact
        # meaning (the model itself, then dyadic samples).  This only selects the replayable witness of a sat answer.
        m2 = _exact_witness(list(facts), neg, m)
        if m2 is not None:
            m, soft = m2, False
        else:
            soft = True
    cex = dict(meta)
    cex['inputs'] = model_inputs(m, mode, syms) if mode is not None else {k: smt.model_val(m, v) for k, v in syms.items() if v is not None}
    cex['soft'] = soft
    return cex


def _has_uf(fmls, names):
    seen = set()
    todo = list(fmls)
    while todo:
        e = todo.pop()
        if not isinstance(e, z3.ExprRef) or e.get_id() in seen:
            continue
        seen.add(e.get_id())
        if z3.is_app(e):
            if e.decl().kind() == z3.Z3_OP_UNINTERPRETED and e.decl().name() in names:
                return True
            todo.extend(e.children())
    return False


class _EnvModel:
    """model-like view of a concrete assignment {variable name: Fraction}"""
    def __init__(self, env):
        self.env = env

    def eval(self, t, model_completion=True):
        if z3.is_const(t) and t.decl().kind() == z3.Z3_OP_UNINTERPRETED:
            return smt.rv(self.env.get(t.decl().name(), Fraction(0)))
        return z3.simplify(z3.substitute(t, *[(z3.Real(k), smt.rv(v)) for k, v in self.env.items()]))


def _free_consts(fmls):
    seen, out, todo = set(), {}, list(fmls)
    while todo:
        e = todo.pop()
        if not isinstance(e, z3.ExprRef) or e.get_id() in seen:
            continue
        seen.add(e.get_id())
        if z3.is_const(e) and e.decl().kind() == z3.Z3_OP_UNINTERPRETED and e.sort() == z3.RealSort():
            out[e.decl().name()] = e
        elif z3.is_app(e):
            todo.extend(e.children())
    return out


def _exact_witness(facts, neg, m, tries=400):
    from . import validate
    consts = _free_consts(facts + [neg])
    if not consts or len(consts) > 24:
        return None
    fm = [f for f in facts if isinstance(f, z3.ExprRef)]

    def holds(env):
        fenv = {k: float(v) for k, v in env.items()}
        try:
            return all(validate.eval_term(f, fenv) for f in fm) and bool(validate.eval_term(neg, fenv))
        except (KeyError, ZeroDivisionError, ValueError, OverflowError):
            return False
    env0 = {k: smt.model_val(m, v) for k, v in consts.items()}
    if holds(env0):
        return _EnvModel(env0)
    rnd = random.Random(len(fm) * 7919 + len(consts))
    grid = [Fraction(i, 4) for i in range(-12, 13)]
    for t in range(tries):
        env = dict(env0)
        ks = list(consts)
        for k in (ks if t % 3 == 0 else rnd.sample(ks, max(1, len(ks) // 2))):
            env[k] = rnd.choice(grid)
        if holds(env):
            return _EnvModel(env)
    return None


# --------------------------------------------------------------------------------------------------
# C side: transcription of dtw_cc.pyx DTWSettings.__init__ (trusted; cross-checked concretely, DESIGN 2.8)
# --------------------------------------------------------------------------------------------------
def _cval(v):
    return v.t if isinstance(v, SReal) else v


def pyx_settings(kwargs):
    """kwargs as produced by dtw.DTWSettings.c_kwargs() (+ only_ub) -> C DTWSettings field values"""
    cs = {}
    for k in ('window', 'max_length_diff'):
        if k in kwargs:
            cs[k] = 0 if kwargs[k] is None else int(kwargs[k])
    for k in ('max_dist', 'max_step', 'penalty'):
        if k in kwargs:
            v = kwargs[k]
            v = 0.0 if v is None else _cval(v)
            cs[k] = float(v) if isinstance(v, (int, float)) else v
    if 'psi' in kwargs:
        psi = kwargs['psi']
        if psi is None:
            p = (0, 0, 0, 0)
        elif type(psi) is int:
            p = (psi,) * 4
        elif type(psi) in (tuple, list):
            p = tuple(psi) if len(psi) == 4 else (0, 0, 0, 0)
        else:
            p = (0, 0, 0, 0)
        cs['psi_1b'], cs['psi_1e'], cs['psi_2b'], cs['psi_2e'] = p
    for k in ('use_pruning', 'only_ub'):
        if k in kwargs:
            cs[k] = bool(kwargs[k]) if kwargs[k] is not None else False
    if 'inner_dist' in kwargs:
        v = kwargs['inner_dist']
        if v == 'squared euclidean' or v == 0:
            cs['inner_dist'] = 0
        elif v == 'euclidean' or v == 1:
            cs['inner_dist'] = 1
        else:
            raise AttributeError('Unknown inner_dist')
    return cs


def c_settings(dtw, **pykw):
    """Python-level keyword arguments -> C settings, through the real DTWSettings.c_kwargs()"""
    only_ub = pykw.pop('only_ub', None)
    s = dtw.DTWSettings(**pykw)
    ck = s.c_kwargs()
    if only_ub is not None:
        ck['only_ub'] = only_ub
    return pyx_settings(ck)


def flat_terms(series):
    out = []
    for v in series:
        if isinstance(v, (list, tuple)):
            out.extend(v)
        else:
            out.append(v)
    return out


def c_distance(irmod, mode, cs, machine_hook=None):
    """run the exported distance kernel of the C engine on the symbolic series of `mode` (inside Explorer.explore)"""
    from . import irsym
    M = irsym.Machine(irmod)
    if machine_hook:
        machine_hook(M)
    s1 = M.new_doubles('s1', flat_terms(mode.a))
    s2 = M.new_doubles('s2', flat_terms(mode.b))
    st = irsym.mk_settings(M, **cs)
    if mode.ndim == 1:
        return M.run('dtw_distance', [s1, mode.r, s2, mode.c, st]), M
    return M.run('dtw_distance_ndim', [s1, mode.r, s2, mode.c, mode.ndim, st]), M


class CCStub:
    """stand-in for the compiled extension dtw_cc inside the *real* Python front-end (dtw.distance(use_c=True), distance_fast):
    the keyword arguments the front-end passes are decoded as dtw_cc.pyx does (pyx_settings) and the real C kernel is run on
    the IRSYM machine.  What stays outside is the Cython layer itself (typed memoryviews, struct packing)."""
    def __init__(self, irmod):
        self.irmod = irmod
        self.calls = []

    def _run(self, s1, s2, ndim, kwargs):
        from . import irsym
        self.calls.append(dict(kwargs))
        M = irsym.Machine(self.irmod)
        a = M.new_doubles('s1', [x.t if isinstance(x, SReal) else float(x) for x in flat_terms(_rows(s1))])
        b = M.new_doubles('s2', [x.t if isinstance(x, SReal) else float(x) for x in flat_terms(_rows(s2))])
        st = irsym.mk_settings(M, **pyx_settings(kwargs))
        if ndim == 1:
            return SRealOrNum(M.run('dtw_distance', [a, len(s1), b, len(s2), st]))
        return SRealOrNum(M.run('dtw_distance_ndim', [a, len(s1), b, len(s2), ndim, st]))

    def distance(self, s1, s2, **kwargs):
        return self._run(s1, s2, 1, kwargs)

    def distance_ndim(self, s1, s2, **kwargs):
        return self._run(s1, s2, len(s1[0]), kwargs)


def _rows(s):
    out = []
    for v in s:
        try:
            out.append(list(v))
        except TypeError:
            out.append(v)
    return out


def SRealOrNum(v):
    return SReal(v) if isinstance(v, z3.ExprRef) else v


# --------------------------------------------------------------------------------------------------
# path enumerators returning results in the internal (untransformed) domain
# --------------------------------------------------------------------------------------------------
def internal_er(mode, res):
    if pysym.is_inf(res):
        return smt.ER.infinity()
    if isinstance(res, z3.ExprRef):
        res = SReal(res)
    return smt.ER(mode.unresult(res))


def py_paths(fn, mode, assume, stats, max_paths=4000):
    """explore fn() (a call into the real Python code); yields (facts, internal ER | None, path)"""
    ex = pysym.Explorer(assume, max_paths=max_paths, stats=stats)
    for p in ex.explore(fn):
        facts = list(assume) + p.facts()
        yield facts, (None if (p.exc is not None or mode is None) else internal_er(mode, p.result)), p
    py_paths.truncated = ex.truncated
    py_paths.inconclusive = ex.inconclusive_paths


def c_paths(irmod, dtw, mode, pykw, assume, stats, only_ub=False, max_paths=2000):
    """explore the C distance kernel for Python-level options pykw; yields (facts, internal ER | None, path)"""
    def crun():
        ckw = dict(pykw)
        ckw.pop('use_ndim', None)
        cs = c_settings(dtw, only_ub=only_ub, **ckw)
        return c_distance(irmod, mode, cs)[0]
    ex = pysym.Explorer(assume, max_paths=max_paths, stats=stats)
    for p in ex.explore(crun):
        facts = list(assume) + p.facts()
        yield facts, (None if p.exc is not None else internal_er(mode, p.result)), p
    c_paths.truncated = ex.truncated
    c_paths.inconclusive = ex.inconclusive_paths
