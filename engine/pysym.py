"""PYSYM: symbolic execution of the repository's real Python code on proxy values.

SReal wraps a z3 real term; comparisons give SBool whose truth value is decided by the path explorer
(re-execution DFS with incremental feasibility checks).  +/-inf stays concrete.
"""
import math
import sys
import types
import time
from fractions import Fraction

import z3

from . import smt
from .smt import INF, rv, SQ_F, SQRT_F, EXP_F, DIV_F


class Inconclusive(BaseException):
    """path abandoned: solver said unknown / budget exhausted (BaseException: never swallowed by the code under test)"""


class Realised(Exception):
    """the code under test tried to turn a symbolic value into a concrete one"""


class Mode:
    square = 'abstract'      # 'abstract': t*t -> SQ(t) (uninterpreted + lemmas); 'exact': t*t
    relax_roundtrip = False  # True: sqrt(u)*sqrt(u) -> u + delta, |delta| <= u*2^-51 (models double rounding)


ROUND_EPS = smt.rv(Fraction(1, 2 ** 51))


CUR = None   # current Explorer


def is_inf(x):
    return isinstance(x, float) and math.isinf(x)


def _np():
    import numpy
    return numpy


def _is_num(o):
    if isinstance(o, (int, float, Fraction)) and not isinstance(o, bool):
        return True
    np = sys.modules.get('numpy')
    return np is not None and isinstance(o, (np.integer, np.floating))


def lift(x):
    if isinstance(x, SReal):
        return x.t
    if isinstance(x, bool):
        return rv(int(x))
    np = sys.modules.get('numpy')
    if np is not None and isinstance(x, np.bool_):
        return rv(int(x))
    return rv(x)


def square_term(t):
    if z3.is_app(t) and t.decl().kind() == z3.Z3_OP_UNINTERPRETED and t.decl().name() == 'SQRT':
        u = t.arg(0)
        if Mode.relax_roundtrip and CUR is not None:
            CUR.fresh_n += 1
            d = z3.Real('rnd%d' % CUR.fresh_n)
            CUR.side_fact(z3.And(d <= u * ROUND_EPS, -d <= u * ROUND_EPS))
            CUR.roundtrip_used = True
            return u + d
        return u
    if z3.is_rational_value(t) or z3.is_int_value(t):
        return z3.simplify(t * t)
    if z3.is_app(t) and t.decl().kind() == z3.Z3_OP_ITE:
        a, b = t.arg(1), t.arg(2)
        if any(z3.is_app(x) and x.decl().kind() == z3.Z3_OP_UNINTERPRETED and x.decl().name() == 'SQRT' for x in (a, b)):
            return z3.If(t.arg(0), square_term(a), square_term(b))
    if Mode.square == 'exact':
        return t * t
    r = SQ_F(t)
    if CUR is not None:
        CUR.side_fact(r >= 0)
        if CUR.pairwise:
            CUR.register_uf('SQ', t)
    return r


def sqrt_term(t):
    if z3.is_rational_value(t) or z3.is_int_value(t):
        f = smt.frac_of(t)
        if f >= 0:
            n, d = math.isqrt(f.numerator), math.isqrt(f.denominator)
            if n * n == f.numerator and d * d == f.denominator:
                return rv(Fraction(n, d))
    r = SQRT_F(t)
    if CUR is not None:
        CUR.side_fact(z3.Implies(t >= 0, r >= 0))
        CUR.side_fact(z3.Implies(t > 0, r > 0))
        CUR.side_fact(z3.Implies(t == 0, r == 0))
        if CUR.pairwise:
            CUR.register_uf('SQRT', t)
    return r


def div_term(a, b):
    """a / b : exact for a numeral divisor, otherwise the uninterpreted DIV(a, b) (lemmas in smt.uf_lemmas)"""
    if z3.is_rational_value(b) or z3.is_int_value(b):
        f = smt.frac_of(b)
        if f == 0:
            raise ZeroDivisionError('division by zero')
        return a * rv(1 / f)
    if Mode.square == 'exact':
        return a / b
    return DIV_F(a, b)


def exp_term(t):
    if (z3.is_rational_value(t) or z3.is_int_value(t)) and smt.frac_of(t) == 0:
        return rv(1)
    r = EXP_F(t)
    if CUR is not None:
        CUR.side_fact(r > 0)
        CUR.side_fact((t <= 0) == (r <= 1))
        CUR.side_fact((t == 0) == (r == 1))
    return r


class SBool:
    __slots__ = ('t',)

    def __init__(self, t):
        self.t = t

    def __bool__(self):
        return CUR.branch(self.t)

    def __and__(self, o):
        return SBool(z3.And(self.t, o.t if isinstance(o, SBool) else z3.BoolVal(bool(o))))

    __rand__ = __and__

    def __or__(self, o):
        return SBool(z3.Or(self.t, o.t if isinstance(o, SBool) else z3.BoolVal(bool(o))))

    __ror__ = __or__

    def __invert__(self):
        return SBool(z3.Not(self.t))

    def __repr__(self):
        return 'SBool(%s)' % self.t


class SReal:
    __slots__ = ('t',)
    # (no __array_priority__: ndarray op proxy must be handled elementwise by NumPy)

    def __init__(self, t):
        self.t = t

    # ---- arithmetic
    def _other(self, o):
        """-> ('inf', o) | ('t', term) | None (defer to the other operand, e.g. ndarray)"""
        if isinstance(o, SReal):
            return 't', o.t
        if isinstance(o, float) and (math.isinf(o) or math.isnan(o)):
            return 'inf', o
        if _is_num(o) or isinstance(o, bool):
            if isinstance(o, float) or (sys.modules.get('numpy') and isinstance(o, _np().floating)):
                o = float(o)
                if math.isinf(o) or math.isnan(o):
                    return 'inf', o
            return 't', lift(o)
        return None

    def __add__(self, o):
        k = self._other(o)
        if k is None:
            return NotImplemented
        if k[0] == 'inf':
            return k[1]
        return SReal(self.t + k[1])

    __radd__ = __add__

    def __sub__(self, o):
        k = self._other(o)
        if k is None:
            return NotImplemented
        if k[0] == 'inf':
            return -k[1]
        return SReal(self.t - k[1])

    def __rsub__(self, o):
        k = self._other(o)
        if k is None:
            return NotImplemented
        if k[0] == 'inf':
            return k[1]
        return SReal(k[1] - self.t)

    def __mul__(self, o):
        k = self._other(o)
        if k is None:
            return NotImplemented
        if k[0] == 'inf':
            s = CUR.branch(self.t > 0)
            if not s and not CUR.branch(self.t < 0):
                return float('nan')
            return k[1] if s else -k[1]
        if k[1].eq(self.t):
            return SReal(square_term(self.t))
        return SReal(self.t * k[1])

    __rmul__ = __mul__

    def __truediv__(self, o):
        k = self._other(o)
        if k is None:
            return NotImplemented
        if k[0] == 'inf':
            return 0.0
        return SReal(div_term(self.t, k[1]))

    def __rtruediv__(self, o):
        k = self._other(o)
        if k is None:
            return NotImplemented
        if k[0] == 'inf':
            raise NotImplementedError('inf / symbolic')
        return SReal(div_term(k[1], self.t))

    def __neg__(self):
        return SReal(-self.t)

    def __pos__(self):
        return self

    def __abs__(self):
        return SReal(smt.zabs(self.t))

    def __pow__(self, k):
        if isinstance(k, SReal):
            raise NotImplementedError('symbolic exponent')
        if k == 2:
            return SReal(square_term(self.t))
        if k == 1:
            return self
        if k == 0.5:
            return SReal(sqrt_term(self.t))
        raise NotImplementedError('pow %r' % (k,))

    def __rpow__(self, base):
        raise NotImplementedError('number ** symbolic')

    def sqrt(self):
        return SReal(sqrt_term(self.t))

    def exp(self):
        return SReal(exp_term(self.t))

    def conjugate(self):
        return self

    # ---- comparisons
    def _cmp(self, o, f, pinf, ninf):
        if o is None:
            raise TypeError('comparison of symbolic real with None')
        k = self._other(o)
        if k is None:
            return NotImplemented
        if k[0] == 'inf':
            if math.isnan(k[1]):
                return False
            return pinf if k[1] > 0 else ninf
        return SBool(f(self.t, k[1]))

    def __lt__(self, o): return self._cmp(o, lambda a, b: a < b, True, False)
    def __le__(self, o): return self._cmp(o, lambda a, b: a <= b, True, False)
    def __gt__(self, o): return self._cmp(o, lambda a, b: a > b, False, True)
    def __ge__(self, o): return self._cmp(o, lambda a, b: a >= b, False, True)

    def __eq__(self, o):
        if o is None:
            return False
        k = self._other(o)
        if k is None:
            return NotImplemented
        if k[0] == 'inf':
            return False
        return SBool(self.t == k[1])

    def __ne__(self, o):
        if o is None:
            return True
        k = self._other(o)
        if k is None:
            return NotImplemented
        if k[0] == 'inf':
            return True
        return SBool(self.t != k[1])

    __hash__ = None

    def __bool__(self):
        return CUR.branch(self.t != 0)

    def __float__(self):
        raise Realised('float() of a symbolic value')

    def __int__(self):
        raise Realised('int() of a symbolic value')

    __index__ = __int__

    def __round__(self, n=None):
        raise Realised('round() of a symbolic value')

    def __repr__(self):
        s = str(self.t)
        return 'SReal(%s)' % (s if len(s) < 60 else s[:57] + '...')

    def __format__(self, spec):
        return repr(self)


# --------------------------------------------------------------------------------------------------
# merged min / max, forking argmin / argmax
# --------------------------------------------------------------------------------------------------
def _flat(a):
    if len(a) == 1 and not isinstance(a[0], (SReal, int, float, Fraction)):
        x = a[0]
        np = sys.modules.get('numpy')
        if np is not None and isinstance(x, np.ndarray):
            return list(x.flat)
        return list(x)
    return list(a)


def _m2(a, b, want_min):
    sa, sb = isinstance(a, SReal), isinstance(b, SReal)
    if not sa and not sb:
        if want_min:
            return b if b < a else a
        return b if b > a else a
    for x, y in ((a, b), (b, a)):
        if not isinstance(x, SReal) and isinstance(x, float) and math.isinf(x):
            if (x > 0) == want_min:
                return y
            return x
    ta, tb = lift(a), lift(b)
    if want_min:
        return SReal(z3.If(tb < ta, tb, ta))
    return SReal(z3.If(tb > ta, tb, ta))


def smin(*a, **kw):
    xs = _flat(a)
    if not xs:
        if 'default' in kw:
            return kw['default']
        raise ValueError('min() arg is an empty sequence')
    cur = xs[0]
    for x in xs[1:]:
        cur = _m2(cur, x, True)
    return cur


def smax(*a, **kw):
    xs = _flat(a)
    if not xs:
        if 'default' in kw:
            return kw['default']
        raise ValueError('max() arg is an empty sequence')
    cur = xs[0]
    for x in xs[1:]:
        cur = _m2(cur, x, False)
    return cur


def sargmin(a):
    xs = _flat((a,))
    bi, bv = 0, xs[0]
    for i, v in enumerate(xs[1:], 1):
        if v < bv:
            bi, bv = i, v
    return bi


def sargmax(a):
    xs = _flat((a,))
    bi, bv = 0, xs[0]
    for i, v in enumerate(xs[1:], 1):
        if v > bv:
            bi, bv = i, v
    return bi


# --------------------------------------------------------------------------------------------------
# explorer
# --------------------------------------------------------------------------------------------------
class Path:
    __slots__ = ('pc', 'side', 'result', 'exc', 'decisions')

    def __init__(self, pc, side, result, exc, decisions):
        self.pc, self.side, self.result, self.exc, self.decisions = pc, side, result, exc, decisions

    def facts(self):
        return list(self.pc) + list(self.side)


class Explorer:
    def __init__(self, assumptions=(), max_paths=20000, stats=None, timeout_ms=None, deadline=None, pairwise=False):
        self.pairwise = pairwise      # instantiate pairwise UF lemmas while exploring (prunes spurious paths)
        self.assumptions = list(assumptions)
        self.max_paths = max_paths
        self.stats = stats or smt.Stats()
        self.timeout_ms = timeout_ms or smt.BRANCH_TIMEOUT_MS
        self.truncated = False
        self.inconclusive_paths = 0
        self.deadline = deadline
        self.concrete_env = None
        self._known0 = {}
        for a in self.assumptions:
            self._note(self._known0, a)
        self._reset_run([])

    def _reset_run(self, prefix):
        self.prefix = prefix
        self.trace = []
        self.pc = []
        self.side = []
        self._side_ids = set()
        self.solver = z3.Solver()
        self.solver.set('timeout', self.timeout_ms)
        smt.fast_add(self.solver, self.assumptions)
        self.known = dict(self._known0)
        self.fresh_n = 0
        self.roundtrip_used = False
        self._uf = {'SQ': {}, 'SQRT': {}}

    @staticmethod
    def _note(known, lit):
        """remember a literal of the path condition so that syntactically identical conditions need no solver call"""
        try:
            lit = z3.simplify(lit)
        except z3.Z3Exception:
            return
        if z3.is_not(lit):
            known[lit.arg(0).get_id()] = (False, lit.arg(0))
        else:
            known[lit.get_id()] = (True, lit)

    def register_uf(self, kind, arg):
        d = self._uf[kind]
        i = arg.get_id()
        if i in d:
            return
        d[i] = arg
        terms = [SQ_F(a) for a in self._uf['SQ'].values()] + [SQRT_F(a) for a in self._uf['SQRT'].values()]
        for f in smt.uf_lemmas(terms, pairwise=True):
            self.side_fact(f)

    def side_fact(self, f):
        i = f.get_id()
        if i in self._side_ids:
            return
        self._side_ids.add(i)
        self.side.append(f)
        self.solver.add(f)

    def _check(self, extra):
        self.stats.branch_queries += 1
        t0 = time.time()
        self.solver.push()
        self.solver.add(extra)
        r = self.solver.check()
        self.solver.pop()
        self.stats.solver_s += time.time() - t0
        if r == z3.unknown:
            raise Inconclusive('branch feasibility unknown')
        return r == z3.sat

    def branch(self, cond):
        cond = z3.simplify(cond)
        if z3.is_true(cond):
            return True
        if z3.is_false(cond):
            return False
        k = self.known.get(cond.get_id())
        if k is not None:
            return k[0]
        if z3.is_not(cond):
            k = self.known.get(cond.arg(0).get_id())
            if k is not None:
                return not k[0]
        i = len(self.trace)
        if i < len(self.prefix):
            d = bool(self.prefix[i])
        elif self.concrete_env is not None:
            # translator validation: inputs are pinned, every condition is decided by evaluation (exact meaning of SQ/SQRT/...)
            from . import validate
            d = bool(validate.eval_term(cond, self.concrete_env))
        else:
            if self._check(cond):
                if self._check(z3.Not(cond)):
                    self.work.append(self.trace + [0])
                d = True
            else:
                d = False
        self.trace.append(1 if d else 0)
        c = cond if d else z3.Not(cond)
        self.pc.append(c)
        self.solver.add(c)
        if z3.is_not(cond):
            self.known[cond.arg(0).get_id()] = (not d, cond.arg(0))
        else:
            self.known[cond.get_id()] = (d, cond)
        return d

    def choose(self, n, label='choice'):
        """nondeterministic integer in range(n): every value is explored"""
        if n <= 1:
            return 0
        i = len(self.trace)
        if i < len(self.prefix):
            d = self.prefix[i]
        else:
            for k in range(n - 1, 0, -1):
                self.work.append(self.trace + [k])
            d = 0
        self.trace.append(d)
        return d

    def assume(self, cond):
        """constrain the rest of this path (used by stubs with a contract)"""
        if isinstance(cond, SBool):
            cond = cond.t
        if not self._check(cond):
            raise Inconclusive('assumption infeasible on this path')
        self.pc.append(cond)
        self.solver.add(cond)

    def explore(self, fn):
        global CUR
        self.work = [[]]
        n = 0
        while self.work:
            if n >= self.max_paths or (self.deadline and time.time() > self.deadline):
                self.truncated = True
                break
            self._reset_run(self.work.pop())
            CUR = self
            res, exc = None, None
            try:
                res = fn()
            except Inconclusive:
                self.inconclusive_paths += 1
                continue
            except Exception as e:      # the code under test raised on this path
                exc = e
            finally:
                CUR = None
            n += 1
            self.stats.paths += 1
            yield Path(list(self.pc), list(self.side), res, exc, list(self.trace))


# --------------------------------------------------------------------------------------------------
# environment shims
# --------------------------------------------------------------------------------------------------
class SymList(list):
    """stand-in for array.array (the real one cannot hold proxies)"""
    typecode = 'd'

    def __getitem__(self, k):
        r = list.__getitem__(self, k)
        if isinstance(k, slice):
            return SymList(r)
        return r

    def tolist(self):
        return list(self)


class ArrayShim(types.ModuleType):
    def __init__(self):
        super().__init__('array_shim')
        self.ArrayType = SymList

    @staticmethod
    def array(tc, init=()):
        return SymList(init)


class MathShim(types.ModuleType):
    def __init__(self):
        super().__init__('math_shim')

    def __getattr__(self, k):
        return getattr(math, k)

    @staticmethod
    def sqrt(x):
        if isinstance(x, SReal):
            return x.sqrt()
        return math.sqrt(x)

    @staticmethod
    def exp(x):
        if isinstance(x, SReal):
            return x.exp()
        return math.exp(x)

    @staticmethod
    def isinf(x):
        if isinstance(x, SReal):
            return False
        return math.isinf(x)

    @staticmethod
    def isnan(x):
        if isinstance(x, SReal):
            return False
        return math.isnan(x)

    @staticmethod
    def fabs(x):
        return abs(x)

    @staticmethod
    def pow(x, k):
        return x ** k


def _elementwise(f, conc):
    def g(x, *a, **k):
        np = _np()
        if isinstance(x, SReal):
            return f(x)
        if isinstance(x, np.ndarray) and x.dtype == object:
            out = np.empty(x.shape, dtype=object)
            for idx in np.ndindex(x.shape):
                v = x[idx]
                out[idx] = f(v) if isinstance(v, SReal) else conc(v)
            return out
        return getattr(np, conc.__name__)(x, *a, **k) if hasattr(np, conc.__name__) else conc(x)
    return g


class NumpyShim(types.ModuleType):
    """forwards to the real NumPy; array constructors force dtype=object so arrays can hold proxies"""

    def __init__(self):
        super().__init__('numpy_shim')
        np = _np()
        self._np = np
        self.sqrt = _elementwise(lambda v: v.sqrt(), math.sqrt)
        self.exp = _elementwise(lambda v: v.exp(), math.exp)
        self.abs = self.absolute = _elementwise(lambda v: abs(v), abs)

    def __getattr__(self, k):
        return getattr(self._np, k)

    def full(self, shape, v, dtype=None, **kw):
        return self._np.full(shape, v, dtype=object)

    def zeros(self, shape, dtype=None, **kw):
        a = self._np.empty(shape, dtype=object)
        a[...] = 0
        return a

    def ones(self, shape, dtype=None, **kw):
        a = self._np.empty(shape, dtype=object)
        a[...] = 1
        return a

    def empty(self, shape, dtype=None, **kw):
        a = self._np.empty(shape, dtype=object)
        a[...] = float('nan')
        return a

    def array(self, x, dtype=None, **kw):
        kw.pop('copy', None)
        if dtype is not None and self._np.issubdtype(self._np.dtype(dtype), self._np.integer):
            try:
                return self._np.array(x, dtype=dtype)
            except Exception:
                pass
        r = objarray(x)
        if r is x:
            r = x.copy()        # numpy.array copies its argument
        return r

    def asarray(self, x, dtype=None, order=None, **kw):
        if isinstance(x, self._np.ndarray):
            return x
        return objarray(x)

    def isinf(self, x):
        np = self._np
        if isinstance(x, SReal):
            return False
        if isinstance(x, np.ndarray) and x.dtype == object:
            out = np.zeros(x.shape, dtype=bool)
            for idx in np.ndindex(x.shape):
                out[idx] = is_inf(x[idx])
            return out
        return np.isinf(x)

    def isnan(self, x):
        np = self._np
        if isinstance(x, SReal):
            return False
        if isinstance(x, np.ndarray) and x.dtype == object:
            out = np.zeros(x.shape, dtype=bool)
            for idx in np.ndindex(x.shape):
                v = x[idx]
                out[idx] = isinstance(v, float) and math.isnan(v)
            return out
        return np.isnan(x)

    def min(self, a, *args, **kw):
        if not args and not kw:
            return smin(a)
        return self._np.min(a, *args, **kw)

    def max(self, a, *args, **kw):
        if not args and not kw:
            return smax(a)
        return self._np.max(a, *args, **kw)

    amin = min
    amax = max

    def argmin(self, a, *args, **kw):
        if not args and not kw:
            return sargmin(a)
        return self._np.argmin(a, *args, **kw)

    def argmax(self, a, *args, **kw):
        if not args and not kw:
            return sargmax(a)
        return self._np.argmax(a, *args, **kw)


def objarray(x):
    """nested lists / arrays of proxies -> ndarray(dtype=object) with the natural shape"""
    np = _np()
    if isinstance(x, np.ndarray):
        if x.dtype == object:
            return x
        return x.astype(object)

    def shape_of(v):
        if isinstance(v, (list, tuple)) or (isinstance(v, np.ndarray)):
            if len(v) == 0:
                return (0,)
            return (len(v),) + shape_of(v[0])
        return ()
    sh = shape_of(x)
    a = np.empty(sh, dtype=object)
    if sh == ():
        a[()] = x
        return a

    def fill(v, idx):
        if len(idx) == len(sh):
            a[idx] = v
            return
        for i, w in enumerate(v):
            fill(w, idx + (i,))
    fill(x, ())
    return a


NP = None
ARRAY = ArrayShim()
MATH = MathShim()


def np_shim():
    global NP
    if NP is None:
        NP = NumpyShim()
    return NP


def patch_module(mod, with_numpy=True):
    """install the merged min/max models and the shims as module globals of a repository module"""
    d = mod.__dict__
    d['min'] = smin
    d['max'] = smax
    if 'array_min' in d:
        d['array_min'] = smin
    if 'array_max' in d:
        d['array_max'] = smax
    if 'argmin' in d:
        d['argmin'] = sargmin
    if 'argmax' in d:
        d['argmax'] = sargmax
    if 'math' in d:
        d['math'] = MATH
    if 'array' in d:
        if isinstance(d['array'], types.ModuleType):
            d['array'] = ARRAY
        else:
            d['array'] = ARRAY.array
    if with_numpy and d.get('np', None) is not None:
        d['np'] = np_shim()


# --------------------------------------------------------------------------------------------------
# write guards (C20)
# --------------------------------------------------------------------------------------------------
class WriteSeen(Exception):
    pass


class GuardedList(list):
    """list that reports any in-place modification"""
    def _w(self, *a, **k):
        raise WriteSeen('write into an input series')
    __setitem__ = __delitem__ = __iadd__ = __imul__ = _w
    append = extend = insert = pop = remove = reverse = sort = clear = _w

    def __getitem__(self, k):
        r = list.__getitem__(self, k)
        if isinstance(k, slice):
            return list(r)
        return r
