"""Call specifications for the exported C routines: one description drives (a) the symbolic run on the IRSYM machine
with exactly-sized buffers and (b) a generated native driver compiled with clang sanitizers for replay.

spec = {'settings': {field: number | {'sym': name}}, 'block': {'rb','re','cb','ce','triu'} (optional),
        'bufs': [[name, type, init]],      type in double|idx|u8|ptrs ; init = list of values / {'sym': n} / int N (uninitialised, N elements)
        'calls': [[func, [args], rettype]]}  args: buffer name / 'settings' / 'block' / literal / {'sym': name} / ['addr', name]
"""
import hashlib
import json
import os
import subprocess

import z3

from . import irsym, smt

RET = {'double': 'double', 'idx': 'idx_t', 'void': 'void', 'bool': 'bool'}
PROTOS = None


def _sym(v, symmap):
    if isinstance(v, dict) and 'sym' in v:
        return symmap[v['sym']]
    return v


def run_symbolic(irmod, spec, symmap, machine_hook=None):
    """execute the call sequence on a fresh machine; returns (results, machine, buffers)"""
    M = irsym.Machine(irmod)
    if machine_hook:
        machine_hook(M)
    bufs = {}
    pending_parts = []
    for name, ty, init in spec['bufs']:
        if ty == 'double':
            if isinstance(init, int):
                bufs[name] = M.new_buffer(name, 8 * init, kind='output')
            else:
                vals = [_sym(v, symmap) for v in init]
                vals = [float(v) if isinstance(v, (int, float)) and not isinstance(v, bool) else v for v in vals]
                bufs[name] = M.new_doubles(name, vals, kind='input', writable=False)
        elif ty == 'double_rw':
            vals = [_sym(v, symmap) for v in init]
            vals = [float(v) if isinstance(v, (int, float)) and not isinstance(v, bool) else v for v in vals]
            bufs[name] = M.new_doubles(name, vals, kind='output', writable=True)
        elif ty == 'idx':
            if isinstance(init, int):
                bufs[name] = M.new_buffer(name, 8 * init, kind='output')
            else:
                bufs[name] = M.new_ints(name, list(init), kind='input', writable=False)
        elif ty == 'u8':
            bufs[name] = M.new_ints(name, list(init), kind='input', writable=False, width=1)
        elif ty == 'parts':     # DTWWps computed by the C code itself for (l1, l2) and the settings of the specification
            pending_parts.append((name, init))
        elif ty == 'ptrs':
            o = M.alloc(name, 8 * len(init), 'input', False)
            for i, b in enumerate(init):
                o.cells[8 * i] = bufs[b]
            bufs[name] = irsym.Ptr(o, 0)
        else:
            raise KeyError(ty)
    st = irsym.mk_settings(M, **{k: _sym(v, symmap) for k, v in spec.get('settings', {}).items()})
    for name, (pl1, pl2) in pending_parts:
        o = M.alloc(name, irmod.sizeof('%struct.DTWWps_s'), 'output', True)
        bufs[name] = irsym.Ptr(o, 0)
        M.run('dtw_wps_parts', [bufs[name], pl1, pl2, st])
        o.writable = False
    blk = None
    if spec.get('block') is not None:
        b = spec['block']
        blk = irsym.mk_block(M, _sym(b['rb'], symmap), _sym(b['re'], symmap), _sym(b['cb'], symmap), _sym(b['ce'], symmap), b['triu'])
        blk.obj.writable = True      # the routines normalise re/ce == 0 in place (the Cython layer hands in its own struct)
    results = []
    for func, args, rett in spec['calls']:
        a2 = []
        for a in args:
            if isinstance(a, str):
                if a == 'settings':
                    a2.append(st)
                elif a == 'block':
                    a2.append(blk if blk is not None else irsym.NULL)
                elif a == 'NULL':
                    a2.append(irsym.NULL)
                else:
                    a2.append(bufs[a])
            elif isinstance(a, dict):
                a2.append(_sym(a, symmap))
            elif isinstance(a, float):
                a2.append(a)
            else:
                a2.append(a)
        results.append(M.run(func, a2))
    return results, M, bufs


# --------------------------------------------------------------------------------------------------
def _cnum(v):
    if isinstance(v, bool):
        return 'true' if v else 'false'
    if isinstance(v, int):
        return str(v)
    v = float(v)
    if v != v:
        return 'NAN'
    if v in (float('inf'), float('-inf')):
        return 'INFINITY' if v > 0 else '-INFINITY'
    return repr(v)


ARGTYPES = {
    # func: list of C parameter kinds used to cast literals properly
}


def to_c(spec, values):
    """C source of a driver that performs the call sequence with heap buffers of exactly the stated size"""
    def val(v):
        if isinstance(v, dict) and 'sym' in v:
            return float(values[v['sym']])
        return v
    L = ['#include "dd_dtw.h"', '#include "dd_dtw_openmp.h"', '#include <string.h>', 'int main(void) {']
    L.append('  DTWSettings settings = dtw_settings_default();')
    for k, v in spec.get('settings', {}).items():
        L.append('  settings.%s = %s;' % (k, _cnum(val(v))))
    if spec.get('block') is not None:
        b = spec['block']
        L.append('  DTWBlock block; block.rb=%s; block.re=%s; block.cb=%s; block.ce=%s; block.triu=%s;' % (
            _cnum(int(val(b['rb']))), _cnum(int(val(b['re']))), _cnum(int(val(b['cb']))), _cnum(int(val(b['ce']))),
            'true' if b['triu'] else 'false'))
    for name, ty, init in spec['bufs']:
        if ty in ('double', 'double_rw'):
            n = init if isinstance(init, int) else len(init)
            L.append('  seq_t *%s = (seq_t*)malloc(sizeof(seq_t) * %d);' % (name, max(n, 0)))
            if not isinstance(init, int):
                for i, v in enumerate(init):
                    L.append('  %s[%d] = %s;' % (name, i, _cnum(float(val(v)))))
        elif ty == 'idx':
            n = init if isinstance(init, int) else len(init)
            L.append('  idx_t *%s = (idx_t*)malloc(sizeof(idx_t) * %d);' % (name, n))
            if not isinstance(init, int):
                for i, v in enumerate(init):
                    L.append('  %s[%d] = %d;' % (name, i, int(v)))
        elif ty == 'u8':
            L.append('  ba_t *%s = (ba_t*)malloc(%d);' % (name, len(init)))
            for i, v in enumerate(init):
                L.append('  %s[%d] = %d;' % (name, i, int(v)))
        elif ty == 'parts':
            L.append('  DTWWps *%s = (DTWWps*)malloc(sizeof(DTWWps)); *%s = dtw_wps_parts(%d, %d, &settings);' % (name, name, init[0], init[1]))
        elif ty == 'ptrs':
            L.append('  seq_t **%s = (seq_t**)malloc(sizeof(seq_t*) * %d);' % (name, len(init)))
            for i, b in enumerate(init):
                L.append('  %s[%d] = %s;' % (name, i, b))
    for k, (func, args, rett) in enumerate(spec['calls']):
        a2 = []
        for a in args:
            if isinstance(a, str):
                a2.append({'settings': '&settings', 'block': '&block' if spec.get('block') is not None else 'NULL', 'NULL': 'NULL'}.get(a, a))
            elif isinstance(a, dict):
                a2.append(_cnum(float(val(a))))
            else:
                a2.append(_cnum(a))
        call = '%s(%s)' % (func, ', '.join(a2))
        if rett == 'double':
            L.append('  { volatile double r%d = %s; printf("r%d=%%.17g\\n", (double)r%d); }' % (k, call, k, k))
        elif rett in ('idx', 'bool'):
            L.append('  { volatile long r%d = (long)%s; printf("r%d=%%ld\\n", r%d); }' % (k, call, k, k))
        else:
            L.append('  %s;' % call)
    # read every output buffer once so that MSan / ASan see uses of what was written
    for name, ty, init in spec['bufs']:
        if isinstance(init, int) and ty in ('double', 'idx'):
            pass
    for name, ty, init in spec['bufs']:
        L.append('  free(%s);' % name)
    L.append('  return 0;')
    L.append('}')
    return '\n'.join(L) + '\n'


def san_run(spec, values, sanitizer='address,undefined', timeout=120):
    """compile the driver with clang sanitizers against the working tree's C sources and run it.
    returns (reported: bool, output tail)"""
    src = to_c(spec, values)
    key = hashlib.sha1((src + irsym.c_sources_hash() + sanitizer).encode()).hexdigest()[:16]
    d = os.path.join(irsym.CACHE, 'san', key)
    os.makedirs(d, exist_ok=True)
    cfile = os.path.join(d, 'driver.c')
    exe = os.path.join(d, 'driver')
    with open(cfile, 'w') as f:
        f.write(src)
    ompdir = os.path.join(d, 'ompstub')
    os.makedirs(ompdir, exist_ok=True)
    open(os.path.join(ompdir, 'omp.h'), 'w').close()
    srcs = [os.path.join(irsym.CDIR, x) for x in ('dd_dtw.c', 'dd_ed.c', 'dd_globals.c', 'dd_dtw_openmp.c')]
    cmd = ['clang-14', '-g', '-O0', '-DNDEBUG', '-fno-omit-frame-pointer', '-fsanitize=' + sanitizer, '-fno-sanitize-recover=undefined',
           '-I' + irsym.CDIR, '-isystem', ompdir, '-Wno-unknown-pragmas', cfile] + srcs + ['-lm', '-o', exe]
    p = subprocess.run(cmd, capture_output=True, text=True)
    if p.returncode != 0:
        return False, 'driver does not compile: ' + p.stderr[-1500:]
    env = dict(os.environ, ASAN_OPTIONS='detect_leaks=0:abort_on_error=0', UBSAN_OPTIONS='print_stacktrace=1')
    try:
        r = subprocess.run([exe], capture_output=True, text=True, timeout=timeout, env=env)
    except subprocess.TimeoutExpired:
        return False, 'driver timeout'
    out = (r.stdout + r.stderr)
    reported = r.returncode != 0 and ('Sanitizer' in out or 'runtime error' in out or r.returncode < 0)
    return reported, out[-1500:]
