import sys
sys.path.insert(0, '/verif'); sys.path.insert(0, '/repo/src')
from checks import C18
from engine import irsym, ckern, dtwh, pysym, smt
import z3
irmod = irsym.module()
a=[z3.Real('a0')]; b=[z3.Real('b0'), z3.Real('b1')]
mode = dtwh.SeriesMode(1, 2, 'squared euclidean'); mode.a, mode.b = a, b
W = C18.oracle(a, b, 1, 2, None, 1, 1, 0, False)
ex = pysym.Explorer([C18.TAU >= 0, C18.DELTA <= 0])
for p in ex.explore(lambda: ckern.full_matrix(ckern.warping_paths(irmod, mode, {'window': 0}, keep_int_repr=False, psi_neg=False, fill=float('-inf'), affinity=(False, 1.0, C18.TAU, C18.DELTA, 1.0)), affinity=True)):
    print('exc', p.exc); m = p.result
    if m: print('C   ', m[1][1], '|', m[1][2]); print('ORAC', W[1][1][1], '|', W[1][2][1]); break
