#!/bin/sh
# dev tool: run the thorough tier of the listed checks one after another, evidence to a scratch dir
cd /verif
for c in $1; do
  s=$(date +%s); VERIF_EVIDENCE_DIR=/tmp/thorough_ev ./check $c --tier thorough ${2:+--budget $2} > /tmp/th_$c.log 2>&1; rc=$?; e=$(date +%s)
  echo "$c rc=$rc wall=$((e-s))s $(grep -c KNOWN-FINDING /tmp/th_$c.log) known; $(grep -m1 "^$c thorough" /tmp/th_$c.log | cut -c1-220)"
done
