import json, collections, sys
cex=json.load(open(sys.argv[1])); keys=sys.argv[2].split(',')
g=collections.Counter(); ex={}
for c in cex:
    key=tuple(str(c.get(k))[:70] for k in keys)
    g[key]+=1; ex.setdefault(key, json.dumps(c.get('inputs'))[:200])
print(len(cex), 'cex,', len(g), 'classes')
for k,v in sorted(g.items(), key=lambda kv:-kv[1])[:int(sys.argv[3]) if len(sys.argv)>3 else 10]: print(v,k,ex[k])
