import sys, time
sys.path.insert(0, '/verif'); sys.path.insert(0, '/repo/src')
from engine import irsym, pysym, smt, dtwh, ckern
import z3
irmod = irsym.module()
for (r, c, w) in [(2, 2, 0), (3, 3, 0), (3, 3, 1), (4, 4, 2)]:
    mode = dtwh.SeriesMode(r, c, 'squared euclidean')
    st = smt.Stats()
    ex = pysym.Explorer([], stats=st, max_paths=3000)
    t = time.time(); n = 0
    for p in ex.explore(lambda: ckern.full_matrix(ckern.warping_paths(irmod, mode, {'window': w}, keep_int_repr=True))):
        n += 1
        if p.exc: print('EXC', repr(p.exc)); break
    print(r, c, w, 'paths', n, round(time.time() - t, 2), st.branch_queries)
    if n == 1: print(p.result[1][1], p.result[r][c] if r<3 else '')
for (r, c, w) in [(3, 4, 0), (4, 3, 0), (3,4,2), (4, 4, 0)]:
    mode = dtwh.SeriesMode(r, c, 'squared euclidean')
    st = smt.Stats()
    ex = pysym.Explorer([z3.Real('P') >= 0], stats=st, max_paths=3000)
    t = time.time(); n = 0
    for p in ex.explore(lambda: ckern.full_matrix(ckern.warping_paths(irmod, mode, {'window': w, 'penalty': z3.Real('P')}, keep_int_repr=True))):
        n += 1
        if p.exc: print('EXC', repr(p.exc)); break
    print(r, c, w, 'pen paths', n, round(time.time() - t, 2), st.branch_queries)
