import sys, time, random, math
sys.path.insert(0, '/verif'); sys.path.insert(0, '/repo/src')
from engine import irsym, pysym, smt, dtwh, native
from fractions import Fraction
import z3
irmod = irsym.module(); pysym.Mode.square = "exact"
rnd = random.Random(5)
bad = 0
for trial in range(12):
    r, c = rnd.randint(1, 4), rnd.randint(1, 4)
    mode = dtwh.SeriesMode(r, c, 'squared euclidean')
    cs = {}
    if rnd.random() < .6: cs['window'] = rnd.randint(1, 3)
    if rnd.random() < .5: cs['penalty'] = z3.Real('P')
    if rnd.random() < .5:
        cs['psi_1b'] = rnd.randint(0, min(1, r)); cs['psi_1e'] = rnd.randint(0, min(1, r)); cs['psi_2b'] = rnd.randint(0, min(1, c)); cs['psi_2e'] = rnd.randint(0, min(1, c))
    if rnd.random() < .3: cs['max_step'] = z3.Real('S')
    if rnd.random() < .3: cs['max_dist'] = z3.Real('M')
    ex = pysym.Explorer([z3.Real('P') >= 0, z3.Real('S') > 0, z3.Real('M') > 0], max_paths=500)
    paths = list(ex.explore(lambda: dtwh.c_distance(irmod, mode, cs)[0])); print(trial, r, c, {k: str(v) for k, v in cs.items()}, len(paths), flush=True)
    for k in range(5):
        vals = {str(v): Fraction(rnd.randint(-8, 8), 2) for v in mode.variables()}
        vals.update({'P': Fraction(rnd.randint(0, 4), 2), 'S': Fraction(rnd.randint(1, 8), 2), 'M': Fraction(rnd.randint(1, 12), 2)})
        sub = [(z3.Real(n), smt.rv(v)) for n, v in vals.items()]
        hit = None
        for p in paths:
            ok = all(z3.is_true(z3.simplify(z3.substitute(f, *sub))) for f in p.pc)
            if ok:
                hit = p; break
        if hit is None:
            print('NO PATH', r, c, cs, vals); bad += 1; continue
        res = hit.result
        if hit.exc is not None:
            got = 'EXC %r' % hit.exc
        elif isinstance(res, float):
            got = res
        else:
            t = z3.simplify(z3.substitute(res, *sub))
            # SQRT(x) -> evaluate
            if z3.is_app(t) and t.decl().name() == 'SQRT':
                got = math.sqrt(float(smt.frac_of(z3.simplify(t.arg(0)))))
            else:
                got = float(smt.frac_of(t))
        ccs = {k2: (float(vals[str(v)]) if isinstance(v, z3.ExprRef) else v) for k2, v in cs.items()}
        real = native.distance([float(vals['a%d' % i]) for i in range(r)], [float(vals['b%d' % i]) for i in range(c)], ccs)
        if isinstance(got, str) or not (abs(got - real) < 1e-9 or got == real):
            bad += 1
            if bad < 6: print('DIFF', r, c, cs, {k: str(v) for k, v in vals.items()}, got, real, 'paths', len(paths))
print('bad', bad)
