#!/bin/sh
# dev tool: run checks against scratch worktrees that carry a seeded change (VERIF_REPO), while /repo is busy.
# usage: dev/sweep_worktrees.sh "<seeded ids, e.g. C02b>" ; the check run is the id without suffix (+ extra checks after ':', e.g. C20b:C14)
cd /verif
for spec in $1; do
  m=${spec%%:*}; extra=""; [ "$spec" != "$m" ] && extra=$(echo ${spec#*:} | tr ',' ' ')
  wt=/tmp/wt_$m
  git -C $wt checkout -q -- . ; git -C $wt apply /verif/seeded/$m/patch.diff || { echo "apply failed $m"; continue; }
  for c in $(echo $m | cut -c1-3) $extra; do
    VERIF_REPO=$wt VERIF_EVIDENCE_DIR=/tmp/sweep_ev ./check $c > /tmp/sweepwt_${m}_$c.log 2>&1; rc=$?
    v=$(grep -m1 "violated:" /tmp/sweepwt_${m}_$c.log | cut -c1-200 | tr -d '\\')
    h=$(grep -m1 "HARNESS-ERROR" /tmp/sweepwt_${m}_$c.log | cut -c1-200 | tr -d '\\')
    echo "mutation=$m check=$c rc=$rc $v $h"
  done
  git -C $wt checkout -q -- .
done
