"""dev tool: write seeded/<ID>/meta.json from the hand-written table below + the sweep logs (/tmp/sweep_*.log)."""
import json, os, re, glob, subprocess
ROOT = os.path.dirname(os.path.dirname(os.path.abspath(__file__)))
PROPS = {json.loads(l)['id']: json.loads(l) for l in open(os.path.join(ROOT, 'properties.jsonl'))}
NEEDS = {
 'C01': 'Python engine, psi relaxation at the begin of series 1 (psi_1b >= 1) together with a window or pruning that moves the first in-band column of a row away from 0; 3x3 series suffice',
 'C02': 'C engine, max_dist or max_step such that one whole row of the rolling buffer has no cell below the bound while a later row would (psi relaxation / penalty); inner_dist either; lengths 2..3',
 'C03': 'max_dist (or use_pruning) in either engine with psi relaxation at the start: a row without a small cell although a relaxed start in a later row gives a distance below max_dist',
 'C04': 'C warping_paths with a narrow window (region C rows exist: e.g. 3x4, window 1) and max_dist/max_step pruning so that the break test fires one cell early; only the matrix cells differ',
 'C05': 'C dtw_best_path on a compact matrix with region C rows (window smaller than the length difference + length) and penalty > 0 where diagonal and vertical predecessors tie up to the penalty',
 'C06': 'C engine, rectangular block with triu=True whose row range starts below its column range (r+1 > cb for some rows), at least 3 series',
 'C07': 'C engine built with OpenMP, distance_matrix_fast(parallel=True) with a non-triangular block whose column begin is > 0',
 'C08': 'C dtw_distance* with psi_1e > 0 and a window / max_step so that the last in-band column of a relaxed row is not l2: reads a rolling-buffer cell outside the row (stale or out of bounds)',
 'C09': 'C lb_keogh(_fast) with series of different lengths and a window (envelope band offsets differ from the Python ones)',
 'C10': 'C engine, max_step or max_dist with psi_1b = 0: distance(s1,s2) finite in one argument order and inf in the other (symmetry), and larger-bound monotonicity',
 'C11': 'C ed_cc.distance_ndim / ub_euclidean_ndim / use_pruning on multivariate series with len(s1) < len(s2) and ndim >= 2',
 'C12': 'C dba / dba_loop(use_c=True) with psi relaxation in the settings (psi_neg=False leaves unreachable cells unmarked for the back-tracking)',
 'C13': 'subsequence_alignment with penalty > 0 (adj_penalty) so that the back-tracked segment differs from the one realising the matching-function value',
 'C14': 'one SubsequenceSearch object asked kbest_matches(k) and then kbest_matches(None) (or best_match after a k-limited search) with use_lb / max_dist active',
 'C15': 'Hierarchical.fit with at least 3 series where the merged-away index has distances that are still needed for the bookkeeping of the same merge (order hook / ties)',
 'C16': 'KMeans.fit with thr large enough that the loop stops on the mean-shift test right after a mean update that changes the nearest mean of some series',
 'C17': 'needleman_wunsch / best_alignment with a traceback order that is not its own inverse permutation (e.g. (1,2,0))',
 'C18': 'C warping_paths_affinity with a window narrow enough for region C rows (r,c >= 5, window 2) and penalty > 0',
 'C19': "distance_to_similarity(method='reverse') with the default scale and min(D) > 0",
 'C20': 'a multivariate (2-D) Fortran-ordered or transposed NumPy series passed to a *_fast / use_c=True routine',
}
NEEDS.update({
 'C02b': "C engine with inner_dist='euclidean' and a penalty other than 0/1 on a pair whose optimal path has non-diagonal steps (the *_euclidean kernels square the penalty)",
 'C04b': 'C full matrix obtained through expansion of the compact matrix with len1 > len2 and a window narrow enough for region C rows and an unclamped compact width (e.g. 5x4, window 1)',
 'C05b': 'C best-path routines with a window smaller than the series (region D rows) where left < up < diagonal on the path; no penalty or psi needed',
 'C06b': 'Python serial engine, compact=True, non-triangular block ((rb,re),(cb,ce),False) with re > ce',
 'C09b': 'C engine, multivariate series (ndim >= 2) of unequal length with the shorter series having >= 2 points: ed_cc.distance_ndim / ub_euclidean_ndim / only_ub / use_pruning',
 'C12b': 'C dtw_dba_matrix (series in a matrix container) with an average whose length differs from the series length',
 'C13b': 'kbest_matches / best_matches with maxlength given and a candidate match of exactly maxlength + 1 samples',
 'C14b': 'Python lb_keogh (use_lb=True, Python engine) with a finite window and candidate length different from the query length',
 'C15b': 'HierarchicalTree wrapping a model whose merge_hook returns a (keep, delete) pair that keeps the non-default prototype, with >= 3 series',
 'C18b': 'Python warping_paths_affinity with penalty > 0 and a first-row/column cell whose only finite neighbour is below the penalty',
 'C19b': "squash(method='logistic', keep_sign=True) on an input containing an exact zero",
 'C20b': 'one SubsequenceSearch object: a k-limited query (best_match / kbest_matches(k)) followed by kbest_matches(k=None)',
})
NEEDS.update({
 'C01c': 'Python dtw.distance with an explicit window between about len/2 and len (the compact buffer spans the whole row, so the lower-left band edge is no longer enforced) and series 1 lagging series 2 by at least the window',
 'C03c': 'C warping_paths with a narrow window (region C rows) together with use_pruning or max_dist: the row is abandoned one column early, the returned distance becomes inf or a different finite number',
 'C07c': 'OpenMP distance matrix with a triangular block whose row end differs from its column end (re != ce) and at least two non-empty rows',
 'C08c': 'C lb_keogh with series 1 longer than series 2 (any window): reads up to l1-l2 doubles past the end of series 2',
 'C10c': 'Python dtw.distance with len(s1) < len(s2) and a tuple psi whose series-1 and series-2 entries differ',
 'C11c': 'C engine on multivariate series with use_pruning or a finite max_dist, on a row where the pruning start column lies past the band start',
 'C16c': 'KMeans on 1-D series with psi in dists_options (lb_keogh pruning of the nearest-mean search ignores psi)',
 'C17c': 'needleman_wunsch with a direction-dependent substitution (make_substitution_fn dictionary with (a,b) and (b,a) scored differently)',
})
EXTRA = {'C02': ['C10'], 'C10': ['C02'], 'C11': ['C09']}   # cross detections confirmed by hand earlier
ROUND2_NOTE = ('round 2: run against the scratch worktree that carries the change (VERIF_REPO=/tmp/wt_<id>, sources compiled from there) while /repo '
               'was busy with thorough runs; see DESIGN 9.5 for the later run with the change applied to /repo')

def main():
    sweep = {}
    for f in glob.glob('/tmp/sweep_*.log') + glob.glob('/tmp/sweep_wt*.log') + glob.glob('/tmp/sweep2_*.log') + glob.glob('/tmp/sweep3_*.log'):
        for line in open(f):
            m = re.match(r'mutation=(C\d+[bc]?) check=(C\d+) rc=(\d+)\s*(.*)', line)
            if m:
                sweep.setdefault(m.group(1), {})[m.group(2)] = (int(m.group(3)), m.group(4).strip())
    for pid in sorted(p_ for p_ in NEEDS if (p_[-1] in os.environ.get("ROUND", "bc") or not os.environ.get("ROUND"))):
        d = os.path.join(ROOT, 'seeded', pid)
        files = [l[6:].strip() for l in open(os.path.join(d, 'patch.diff')) if l.startswith('+++ b/')]
        conf = open(os.path.join(d, 'confirm.log')).read() if os.path.exists(os.path.join(d, 'confirm.log')) else ''
        caught = {}
        for c, (rc, v) in sorted(sweep.get(pid, {}).items()):
            caught[c] = {'exit': rc, 'first_violation': re.sub(r'^violated:\s*', '', v)}
        meta = {
            'property': pid[:3],
            'property_title': PROPS[pid[:3]].get('title', ''),
            'files_changed': files,
            'needs_to_manifest': NEEDS[pid],
            'written_by': 'sub-agent given only the property text and a scratch worktree of /repo (no access to /verif)',
            'confirmed': {
                'where': 'scratch git worktree of /repo (removed afterwards), extensions rebuilt with the change',
                'demo': 'seeded/%s/demo.py: exit 1 with the change, exit 0 without' % pid,
                'test_suite': 'all 128 baseline tests pass with the change (tests_with.txt)',
                'log': conf.strip().splitlines()[-3:],
            },
            'checks_run_with_change_applied_to_repo': caught,
            'caught_by': sorted(set([c for c, x in caught.items() if x['exit'] == 1] + EXTRA.get(pid, []))),
            'how_run': ROUND2_NOTE if (pid[-1] in 'bc' and os.environ.get('WORKTREE_RUN')) else 'change applied to /repo with git apply, check run, git checkout -- .',
            'notes': 'git -C /repo apply seeded/%s/patch.diff; ./check <ID>; git -C /repo checkout -- .' % pid,
        }
        json.dump(meta, open(os.path.join(d, 'meta.json'), 'w'), indent=1)
        print(pid, meta['caught_by'])

main()
