import sys, json, os
sys.path.insert(0, '/verif'); sys.path.insert(0, '/repo/src')
from engine import irsym, pysym, smt, dtwh
import z3
irmod = irsym.module()
mode = dtwh.SeriesMode(2, 3, 'euclidean')
vals = {'a0': 0, 'a1': -1, 'b0': 0.25, 'b1': -0.25, 'b2': -0.75}
M = z3.Real('M')
assume = [z3.Real(k) == smt.rv(v) for k, v in vals.items()] + [M == smt.rv(0.75)]
cs = {'window': 1, 'psi_1e': 1, 'psi_2e': 1, 'max_dist': M, 'inner_dist': 1}
import engine.irsym as I
orig = I.Machine._merge_at
def traced(self, f, cur, tb, fb, cond, env, budget, depth):
    j = orig(self, f, cur, tb, fb, cond, env, budget, depth)
    if j is not None: print('  merged', f.name, cur, '->', j, 'depth', depth)
    return j
I.Machine._merge_at = traced
for nm in (False, True):
    if nm: os.environ['VERIF_NOMERGE'] = '1'
    ex = pysym.Explorer(assume)
    for p in ex.explore(lambda: dtwh.c_distance(irmod, mode, cs)[0]):
        s = z3.Solver(); s.add(*assume); s.add(*p.pc); print('nomerge' if nm else 'merge', s.check(), p.result if not isinstance(p.result, z3.ExprRef) else s.model().eval(p.result), p.exc)
