import sys, os, cProfile, pstats, time
sys.path.insert(0, '/verif'); sys.path.insert(0, '/repo/src')
from checks import C02
cfg = {'harness': 'pair/1d-sq', 'ndim': 1, 'inner': 'sq', 'r': 3, 'c': 3, 'tier': 'quick', 'seed': 0,
       'opts': [{'pen': True, 'psi': None, 'step': False, 'md': True, 'prune': False, 'ub': False, 'mld': None, 'window': None}]}
t = time.time()
cProfile.run('res = C02.run_task(cfg)', '/tmp/prof.out')
print(res['stats'], time.time() - t)
pstats.Stats('/tmp/prof.out').sort_stats('cumulative').print_stats(35)
