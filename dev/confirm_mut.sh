#!/bin/bash
# usage: confirm_mut.sh <ID> [suffix]   -- confirms a sub-agent mutation in its own scratch worktree /tmp/wt_<ID><suffix>
ID=$1; SUF=$2; WT=/tmp/wt_$ID$SUF; OUT=/verif/seeded/$ID$SUF
mkdir -p $OUT
cp $WT/mutation/patch.diff $OUT/patch.diff
cp $WT/mutation/demo.py $OUT/demo.py
cp $WT/mutation/README.md $OUT/agent_README.md 2>/dev/null
cd $WT
export PYTHONPATH=$WT/src
CCHANGED=$(grep -c -E '^\+\+\+ .*\.(c|h|pyx|pxd)$' $OUT/patch.diff)
# state: change applied (as left by the agent). make sure the tree equals clean+patch
git stash -q 2>/dev/null; git checkout -q -- . ; git apply $OUT/patch.diff || { echo "PATCH DOES NOT APPLY" > $OUT/confirm.log; exit 1; }
if [ "$CCHANGED" != "0" ]; then /venv/bin/python setup.py build_ext --inplace > /tmp/build_$ID$SUF.log 2>&1 || { echo "BUILD FAILED" > $OUT/confirm.log; exit 1; }; fi
( cd $OUT && timeout 300 /venv/bin/python demo.py > $OUT/demo_with.log 2>&1; echo $? > $OUT/demo_with.rc )
/venv/bin/python -m pytest -q -p no:cacheprovider --timeout=900 --continue-on-collection-errors -rA 2>&1 | grep -E "^(PASSED|FAILED|ERROR) " | sort > $OUT/tests_with.txt
git checkout -q -- .
if [ "$CCHANGED" != "0" ]; then /venv/bin/python setup.py build_ext --inplace > /tmp/build_$ID$SUF.log 2>&1; fi
( cd $OUT && timeout 300 /venv/bin/python demo.py > $OUT/demo_without.log 2>&1; echo $? > $OUT/demo_without.rc )
NP=$(grep -c "^PASSED" $OUT/tests_with.txt)
python3 - <<PY > $OUT/confirm.log
import json
base = set(json.load(open('/root/.vp/BASELINE.json'))['stable_pass'])
got = set()
for l in open('$OUT/tests_with.txt'):
    st, name = l.split()[0], l.split()[1]
    if st == 'PASSED':
        p = name.replace('/', '.').replace('.py::', '::')
        got.add(p)
missing = sorted(base - got)
print('demo_with_rc', open('$OUT/demo_with.rc').read().strip(), 'demo_without_rc', open('$OUT/demo_without.rc').read().strip())
print('passed_with_change', len(got), 'baseline_missing', missing)
PY
cat $OUT/confirm.log
