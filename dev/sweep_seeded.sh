#!/bin/sh
# dev tool: apply every seeded change to /repo in turn, run the listed checks, record the outcome, revert.
# usage: dev/sweep_seeded.sh "<mutation ids>" "<check ids | own>"
cd /verif
for m in $1; do
  checks="$2"; [ "$checks" = own ] && checks=$m
  git -C /repo diff --quiet || { echo "repo dirty"; exit 2; }
  git -C /repo apply /verif/seeded/$m/patch.diff || { echo "apply failed $m"; continue; }
  for c in $checks; do
    VERIF_EVIDENCE_DIR=/tmp/sweep_ev ./check $c > /tmp/sweep_$m_$c.log 2>&1; rc=$?
    v=$(grep -m1 "violated:" /tmp/sweep_$m_$c.log | cut -c1-220)
    echo "mutation=$m check=$c rc=$rc $v"
  done
  git -C /repo checkout -- .
done
