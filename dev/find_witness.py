import sys, json, random
sys.path.insert(0, '/verif'); sys.path.insert(0, '/repo/src')
from checks import C05
rnd = random.Random(3)
kf = json.load(open('/verif/known_findings.json'))
for e in kf['findings']:
    if e['id'] in ('F05-py-psi-end', 'F05-py-penalty'):
        w = e['witness']
        for t in range(3000):
            r, c = w['r'], w['c']
            w['inputs']['dm'] = [[str(rnd.randint(0, 9)) for _ in range(c)] for _ in range(r)]
            if e['id'] == 'F05-py-penalty':
                w['inputs']['penalty'] = str(rnd.randint(1, 4))
            res = C05.replay(w)
            if res.get('reproduced'):
                print(e['id'], 'found', w['inputs'], res)
                break
        else:
            print(e['id'], 'NOT FOUND')
json.dump(kf, open('/verif/known_findings.json', 'w'), indent=1)
