import sys, json
sys.path.insert(0, '/verif'); sys.path.insert(0, '/repo/src')
from checks import C02
from engine import dtwh
d = json.load(open(sys.argv[1]))
cfg = {'harness': d['harness'], 'ndim': d.get('ndim', 1), 'inner': d['harness'].split('-')[1], 'r': d['r'], 'c': d['c'], 'tier': 'quick', 'seed': 0, 'opts': [d['opts']]}
res = C02.run_task(cfg)
print(res['stats'], len(res['cex']))
for c in res['cex'][:2]: print(c['claim'], c['inputs'])
