import sys, time, ctypes, random, math
sys.path.insert(0, '/verif')
from engine import irsym, pysym, smt
import z3
t0 = time.time()
mod = irsym.module()
print('parsed', len(mod.funcs), 'functions', round(time.time() - t0, 2), 's')
lib = ctypes.CDLL(irsym.build_native())

class CSettings(ctypes.Structure):
    _fields_ = [('window', ctypes.c_ssize_t), ('max_dist', ctypes.c_double), ('max_step', ctypes.c_double),
                ('max_length_diff', ctypes.c_ssize_t), ('penalty', ctypes.c_double), ('psi_1b', ctypes.c_ssize_t),
                ('psi_1e', ctypes.c_ssize_t), ('psi_2b', ctypes.c_ssize_t), ('psi_2e', ctypes.c_ssize_t),
                ('use_pruning', ctypes.c_bool), ('only_ub', ctypes.c_bool), ('inner_dist', ctypes.c_int), ('window_type', ctypes.c_int)]
lib.dtw_distance.restype = ctypes.c_double
lib.dtw_distance.argtypes = [ctypes.POINTER(ctypes.c_double), ctypes.c_ssize_t, ctypes.POINTER(ctypes.c_double), ctypes.c_ssize_t, ctypes.POINTER(CSettings)]
rnd = random.Random(1)
nbad = 0
ex = pysym.Explorer([])
for trial in range(300):
    r, c = rnd.randint(1, 7), rnd.randint(1, 7)
    s1 = [float(rnd.randint(-4, 4)) for _ in range(r)]
    s2 = [float(rnd.randint(-4, 4)) for _ in range(c)]
    kw = {}
    if rnd.random() < .5: kw['window'] = rnd.randint(1, 5)
    if rnd.random() < .4: kw['penalty'] = rnd.choice([0.5, 1.0, 2.0])
    if rnd.random() < .4:
        kw['psi_1b'] = rnd.randint(0, min(2, r)); kw['psi_1e'] = rnd.randint(0, min(2, r)); kw['psi_2b'] = rnd.randint(0, min(2, c)); kw['psi_2e'] = rnd.randint(0, min(2,c))
    if rnd.random() < .3: kw['max_step'] = rnd.choice([1.5, 3.0])
    if rnd.random() < .3: kw['max_dist'] = rnd.choice([2.0, 5.0])
    if rnd.random() < .2: kw['use_pruning'] = True
    if rnd.random() < .3: kw['inner_dist'] = 1
    if rnd.random() < .2: kw['max_length_diff'] = rnd.randint(0, 2)
    cs = CSettings(**{k: v for k, v in dict(irsym.SETTINGS_DEFAULT, **kw).items()})
    a1 = (ctypes.c_double * r)(*s1); a2 = (ctypes.c_double * c)(*s2)
    real = lib.dtw_distance(a1, r, a2, c, ctypes.byref(cs))
    def go():
        M = irsym.Machine(mod)
        return M.run('dtw_distance', [M.new_doubles('s1', s1), r, M.new_doubles('s2', s2), c, irsym.mk_settings(M, **kw)])
    try:
        res = [p for p in ex.explore(go)]
        got = res[0].result if res[0].exc is None else repr(res[0].exc)
    except Exception as e:
        got = 'EXC %r' % e
    ok = (got == real) or (isinstance(got, float) and math.isnan(got) and math.isnan(real))
    if not ok:
        nbad += 1
        if nbad < 10: print('DIFF', r, c, s1, s2, kw, got, real)
print('trials done, bad', nbad, round(time.time() - t0, 2), 's')
