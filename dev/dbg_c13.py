import sys
sys.path.insert(0, '/verif'); sys.path.insert(0, '/repo/src')
from checks import C13
from engine import dtwh
import engine.dtwh as D
orig = D.claim
def traced(stats, facts, neg, mode, syms, meta, **kw):
    r = orig(stats, facts, neg, mode, syms, meta, **kw)
    if r not in (None, 'unknown'): print('CEX', meta['claim'][:100])
    return r
D.claim = traced
import checks.C13 as M
src = open('/verif/checks/C13.py').read()
cfg = {'harness': 'kbest', 'ql': 1, 'sl': 3, 'k': 2, 'overlap': 0, 'minlength': 1, 'maxlength': None, 'tier': 'quick', 'seed': 0}
# monkeypatch to print the structures
import itertools
res = C13.run_task(cfg)
print(res['stats'], len(res['cex']))
